//! Compile-time part of C03: the engine can be shared across threads and cloned; a generator can be moved
//! to another thread. If this crate stops compiling, C03 reports a violation.
fn assert_send<T: Send>() {}
fn assert_sync<T: Sync>() {}
fn assert_clone<T: Clone>() {}
pub fn c03_static_assertions() {
    assert_send::<jbonsai::Engine>();
    assert_sync::<jbonsai::Engine>();
    assert_clone::<jbonsai::Engine>();
    assert_send::<jbonsai::speech::SpeechGenerator>();
    assert_send::<jbonsai::Condition>();
    assert_sync::<jbonsai::Condition>();
}
