//! C01 – Synthesis is total and frame-exact on every supported input.
//! SCOPE: voices {V0, P1(V0)} ∪ G(ns, stage, nstate, W, gv) × utterance alphabets × every
//! condition with at most d deviations; oracle = no panic, len = fperiod × F (F from the public
//! duration API), F ≥ labels × states, finiteness under the stable-range premise evaluated on the
//! generator's own trajectories (hook 1), no NaN "out of nothing".

use crate::common::*;
use crate::gen::cond::*;
use crate::gen::labels;
use crate::gen::voice::GenCfg;
use crate::oracle::dsp::warp;
use crate::props::c20::Act;
use jbonsai::duration::DurationEstimator;
use jbonsai::label::Labels;
use jbonsai::model::Models;
use jbonsai::Engine;
use serde_json::{json, Value};
use std::f64::consts::PI;
use std::sync::atomic::{AtomicU64, Ordering};

pub struct VoiceCase {
    pub name: String,
    pub engine: Engine,
    pub nstream: usize,
    pub nstate: usize,
    pub stage: usize,
    pub log_gain: bool,
}

#[derive(Clone)]
pub enum Utt {
    Strs(Vec<String>),
    Typed(Vec<jlabel::Label>),
}
impl Utt {
    fn len(&self) -> usize {
        match self {
            Utt::Strs(v) => v.iter().filter(|s| !s.is_empty()).count(),
            Utt::Typed(v) => v.len(),
        }
    }
    fn to_json(&self) -> Value {
        match self {
            Utt::Strs(v) => json!(v),
            Utt::Typed(v) => json!(v.iter().map(|l| l.to_string()).collect::<Vec<_>>()),
        }
    }
}

/// Stable-range premise on one mel-cepstral frame (most conservative reading, DESIGN §4 C01).
pub fn mcep_frame_in_range(c: &[f64], alpha: f64, beta: f64) -> bool {
    if c.iter().any(|x| !x.is_finite()) {
        return false;
    }
    let l = c.len();
    let mut ce = c.to_vec();
    for m in 2..l {
        ce[m] *= 1.0 + beta;
    }
    let mut b = ce.clone();
    for i in (0..l.saturating_sub(1)).rev() {
        b[i] = ce[i] - alpha * b[i + 1];
    }
    if l < 2 {
        return true;
    }
    for k in 0..33 {
        let w = PI * k as f64 / 32.0;
        let (zr, zi) = (w.cos(), -w.sin());
        let (dr, di) = (1.0 - alpha * zr, -alpha * zi);
        let dn = dr * dr + di * di;
        let (ar, ai) = (((zr - alpha) * dr + zi * di) / dn, (zi * dr - (zr - alpha) * di) / dn);
        let aa = 1.0 - alpha * alpha;
        let (pr, pi_) = (aa * (zr * dr + zi * di) / dn, aa * (zi * dr - zr * di) / dn);
        let f1 = (b[1] * pr, b[1] * pi_);
        let (mut cr, mut ci) = (pr, pi_);
        let (mut sr, mut si) = (0.0, 0.0);
        for bm in b.iter().take(l).skip(2) {
            let (nr, ni) = (cr * ar - ci * ai, cr * ai + ci * ar);
            cr = nr;
            ci = ni;
            sr += bm * cr;
            si += bm * ci;
        }
        let m1 = (f1.0 * f1.0 + f1.1 * f1.1).sqrt();
        let m2 = (sr * sr + si * si).sqrt();
        let mt = ((f1.0 + sr).powi(2) + (f1.1 + si).powi(2)).sqrt();
        if !(m1 <= 4.0 && m2 <= 4.0 && mt <= 4.0) {
            return false;
        }
    }
    let _ = warp;
    true
}
pub fn lsp_frame_in_range(p: &[f64], log_gain: bool) -> bool {
    if p.iter().any(|x| !x.is_finite()) {
        return false;
    }
    if !log_gain && !(p[0] > 0.0) {
        return false;
    }
    let min = 0.25 * PI / p.len() as f64;
    let mut prev = 0.0;
    for w in &p[1..] {
        if !(*w - prev >= min) {
            return false;
        }
        prev = *w;
    }
    PI - prev >= min
}

pub struct Stats {
    pub in_range: AtomicU64,
    pub out_range: AtomicU64,
    pub short_mean: AtomicU64,
    pub nonfinite_ok: AtomicU64,
}

/// One synthesis against the C01 oracle.
pub fn check_one(rep: &Report, vc: &VoiceCase, acts: &[Act], utt: &Utt, st: &Stats) {
    let e = with_cond(&vc.engine, acts);
    let rp = || json!({"voice": vc.name, "condition": acts_json(acts), "labels": utt.to_json()});
    rep.eval(1);
    // expected F through the public duration API
    let cond = &e.condition;
    let expected = catch(|| {
        let labels = match utt {
            Utt::Strs(v) => Labels::load_from_strings(cond.get_sampling_frequency(), cond.get_fperiod(), v).map_err(|e| e.to_string())?,
            Utt::Typed(v) => Labels::new(v.clone(), None).map_err(|e| e.to_string())?,
        };
        let models = Models::new(labels.labels(), &e.voices, cond.get_interporation_weight());
        let dp = models.duration();
        let short = dp.iter().filter(|m| m.0 < 0.5).count();
        let est = DurationEstimator::new(dp, models.nstate());
        let d = if cond.get_phoneme_alignment_flag() { est.create_with_alignment(labels.times()) } else { est.create(cond.get_speed()) };
        Ok::<_, String>((d, short))
    });
    let (d, short) = match expected {
        Ok(Ok(x)) => x,
        Ok(Err(er)) => {
            rep.violation("label-error", format!("well-formed labels rejected: {}", er), rp());
            return;
        }
        Err(p) => {
            rep.violation(format!("panic@{}", site_of(&p)), format!("duration API panicked: {}", p), rp());
            return;
        }
    };
    if short > 0 {
        st.short_mean.fetch_add(1, Ordering::Relaxed);
    }
    let nl = utt.len();
    let f: usize = d.iter().sum();
    if d.len() != nl * vc.nstate || d.iter().any(|x| *x < 1) {
        rep.violation("state-floor", format!("duration model gave {} state durations (min {:?}) for {} labels x {} states", d.len(), d.iter().min(), nl, vc.nstate), rp());
        return;
    }
    // trajectories (hook 1) and waveform
    let run = catch(|| {
        let g = match utt {
            Utt::Strs(v) => e.generator(&v[..]),
            Utt::Typed(v) => e.generator(v.clone()),
        }?;
        let (a, b, c) = g.verif_parameters();
        let traj = (a.to_vec(), b.to_vec(), c.to_vec());
        let w = g.generate_all();
        Ok::<_, jbonsai::EngineError>((traj, w))
    });
    let (traj, w) = match run {
        Ok(Ok(x)) => x,
        Ok(Err(er)) => {
            rep.violation("engine-error", format!("synthesis of well-formed labels returned an error: {}", er), rp());
            return;
        }
        Err(p) => {
            rep.violation(format!("panic@{}", site_of(&p)), format!("synthesis panicked: {}", p), rp());
            return;
        }
    };
    rep.cmp(3);
    let fp = cond.get_fperiod();
    if w.len() != fp * f {
        rep.violation("length", format!("waveform has {} samples, want fperiod {} x F {} = {}", w.len(), fp, f, fp * f), rp());
        return;
    }
    if nl == 0 && !w.is_empty() {
        rep.violation("empty", "empty label list produced samples", rp());
        return;
    }
    if traj.0.len() != f || traj.1.len() != f || traj.2.len() != f {
        rep.violation("frames", format!("generator holds {} frames, duration model says {}", traj.0.len(), f), rp());
        return;
    }
    // premise
    let params_finite = traj.0.iter().flatten().all(|x| x.is_finite()) && traj.1.iter().flatten().all(|x| x.is_finite()) && traj.2.iter().flatten().all(|x| x.is_finite());
    if !params_finite {
        rep.violation("non-finite-parameters", "generated parameter trajectories contain NaN/inf although every model parameter is finite", rp());
        return;
    }
    let (alpha, beta) = (cond.get_alpha(), cond.get_beta());
    let in_range = if vc.stage == 0 { traj.0.iter().all(|c| mcep_frame_in_range(c, alpha, beta)) } else { traj.0.iter().all(|p| lsp_frame_in_range(p, vc.log_gain)) };
    if in_range {
        st.in_range.fetch_add(1, Ordering::Relaxed);
    } else {
        st.out_range.fetch_add(1, Ordering::Relaxed);
    }
    if let Some(i) = w.iter().position(|x| !x.is_finite()) {
        if in_range {
            rep.violation("non-finite-in-stable-range", format!("sample {} is not finite although every frame is inside the stable range", i), rp());
        } else {
            let lo = i.saturating_sub(2000);
            let grown = w[lo..i].iter().any(|x| x.abs() > 1e100);
            if !grown {
                rep.violation("nan-out-of-nothing", format!("sample {} is not finite without preceding runaway growth (max |x| before: {:e})", i, w[lo..i].iter().fold(0.0f64, |a, b| a.max(b.abs()))), rp());
            } else {
                st.nonfinite_ok.fetch_add(1, Ordering::Relaxed);
            }
        }
    }
    rep.outcome((w.len() as u64) << 8 | in_range as u64);
}

pub fn gen_family(trees: &[usize]) -> Vec<GenCfg> {
    let mut v = Vec::new();
    for &tree in trees {
        for ns in [3usize, 2] {
            for stage in 0..4usize {
                for nstate in [1usize, 2, 3, 5, 7] {
                    for wset in [0usize, 1, 2, 3, 6, 7] {
                        for gv in [false, true] {
                            v.push(GenCfg { ns, stage, log_gain: (nstate + wset) % 2 == 1, nstate, wset, gv, tree, // vector lengths vary over the family: cepstral orders 3..5, LSP orders 3..5 (odd and even)
                            order: if stage == 0 { 3 + (nstate + wset) % 3 } else { 4 + (nstate + wset + gv as usize) % 3 },
                            lpf_taps: [3, 1, 5][(nstate + stage) % 3],
                            ..GenCfg::default() });
                        }
                    }
                }
            }
        }
    }
    v
}
pub fn voice_case(cfg: &GenCfg) -> Result<VoiceCase, String> {
    let bytes = cfg.bytes();
    match catch(|| engine_from_bytes(&bytes)) {
        Ok(Ok(engine)) => Ok(VoiceCase { name: cfg.describe(), engine, nstream: cfg.ns, nstate: cfg.nstate, stage: cfg.stage, log_gain: cfg.log_gain }),
        Ok(Err(e)) => Err(format!("load error: {}", e)),
        Err(p) => Err(format!("load panic: {}", p)),
    }
}
pub fn v0_case(k: usize) -> VoiceCase {
    VoiceCase { name: if k == 0 { "V0".into() } else { format!("P{}(V0)", k) }, engine: engine_pk(&[k]), nstream: 3, nstate: 5, stage: 0, log_gain: false }
}

/// partially annotated utterances: an untimed label followed by a timed one, a timed one in the middle,
/// start-only / end-only stamps, a too-short (infeasible) span followed by a feasible one
fn partial_timed(l: &[String]) -> Vec<Vec<String>> {
    let t = |a: f64, b: f64, s: &String| format!("{} {} {}", if a < 0.0 { -1 } else { (a * 1e7) as i64 }, if b < 0.0 { -1 } else { (b * 1e7) as i64 }, s);
    vec![
        vec![l[0].clone(), t(0.05, 0.12, &l[1])],
        vec![t(0.0, 0.05, &l[0]), l[1].clone(), t(0.12, 0.2, &l[2])],
        vec![l[0].clone(), l[1].clone(), t(-1.0, 0.2, &l[2]), l[3].clone()],
        vec![t(0.0, -1.0, &l[0]), t(-1.0, 0.09, &l[1]), t(0.09, 0.091, &l[2]), t(0.091, 0.3, &l[3])],
    ]
}

fn timed(lines: &[String], bounds_s: &[f64]) -> Vec<String> {
    lines.iter().enumerate().map(|(i, l)| format!("{} {} {}", (bounds_s[i] * 1e7) as i64, (bounds_s[i + 1] * 1e7) as i64, l)).collect()
}

/// Synthesis from a thread that is shutting down: a thread-local value of the application (registered before or after the
/// thread's first use of the library) whose destructor renders a last utterance.  Must complete with the right length.
fn teardown_part(rep: &Report) {
    use std::cell::RefCell;
    use std::sync::mpsc::{channel, Sender};
    struct Farewell {
        engine: jbonsai::Engine,
        labels: Vec<String>,
        tx: Sender<Result<usize, String>>,
    }
    impl Drop for Farewell {
        fn drop(&mut self) {
            let r = catch(|| self.engine.synthesize(&self.labels[..]).map(|w| w.len()).map_err(|e| e.to_string()));
            let _ = self.tx.send(match r {
                Ok(Ok(n)) => Ok(n),
                Ok(Err(e)) => Err(format!("error: {}", e)),
                Err(p) => Err(format!("panic: {}", p)),
            });
        }
    }
    thread_local! {
        static SLOT: RefCell<Option<Farewell>> = const { RefCell::new(None) };
    }
    let corpus = labels::corpus();
    let labels: Vec<String> = corpus[40..42].to_vec();
    for cfg in [GenCfg { nstate: 2, ..GenCfg::default() }, GenCfg { nstate: 2, ns: 2, stage: 2, order: 5, gv: true, ..GenCfg::default() }] {
        let Ok(vc) = voice_case(&cfg) else { continue };
        let want = vc.engine.synthesize(&labels[..]).map(|w| w.len()).unwrap_or(0);
        for (order, warm) in [("the application's thread-local is set up first, then the thread renders, then it exits", true), ("the thread renders first, then the thread-local is set up", true), ("the thread never renders before it exits", false)] {
            let (tx, rx) = channel();
            let (engine, labs) = (vc.engine.clone(), labels.clone());
            let first = order.starts_with("the application");
            let h = std::thread::spawn(move || {
                let fw = Farewell { engine: engine.clone(), labels: labs.clone(), tx };
                if first {
                    SLOT.with(|s| *s.borrow_mut() = Some(fw));
                    if warm {
                        let _ = engine.synthesize(&labs[..]);
                    }
                } else {
                    if warm {
                        let _ = engine.synthesize(&labs[..]);
                    }
                    SLOT.with(|s| *s.borrow_mut() = Some(fw));
                }
            });
            let _ = h.join();
            rep.eval(1);
            rep.cmp(1);
            let rp = json!({"voice": vc.name, "labels": labels, "scenario": format!("a thread-local destructor synthesizes while the thread shuts down; {}", order)});
            match rx.recv_timeout(std::time::Duration::from_secs(60)) {
                Ok(Ok(n)) if n == want => {}
                Ok(Ok(n)) => rep.violation("teardown-length", format!("synthesis during thread shutdown returns {} samples, want {}", n, want), rp),
                Ok(Err(e)) => rep.violation("teardown", format!("synthesis during thread shutdown fails ({}): {}", order, e), rp),
                Err(_) => rep.violation("teardown", "the thread-local destructor never reported".to_string(), rp),
            }
        }
    }
}

/// Voices have public Serialize/Deserialize. Whatever document Deserialize accepts must give a voice that synthesizes like the
/// one it was written from: every field of the serialized form is deleted in turn (at every nesting level, first element of
/// every list) - today each deletion is rejected; a field that silently gets a default instead must not matter.
fn serde_deletion_part(rep: &Report) {
    use serde_json::Value;
    let corpus = labels::corpus();
    let labels: Vec<String> = corpus[40..43].to_vec();
    let cfg = GenCfg { nstate: 2, gv: true, ..GenCfg::default() };
    let Ok(vc) = voice_case(&cfg) else { return };
    let voice: &jbonsai::model::Voice = vc.engine.voices.iter().next().expect("one voice");
    let Ok(doc) = serde_json::to_value(voice) else {
        rep.violation("serde", "a loaded voice cannot be serialized".to_string(), json!({"voice": vc.name}));
        return;
    };
    let want = vc.engine.synthesize(&labels[..]).map(|w| w.len()).unwrap_or(0);
    // paths to every object key reachable through objects and first list elements
    fn paths(v: &Value, cur: &mut Vec<String>, out: &mut Vec<Vec<String>>) {
        match v {
            Value::Object(m) => {
                for (k, c) in m {
                    cur.push(k.clone());
                    out.push(cur.clone());
                    paths(c, cur, out);
                    cur.pop();
                }
            }
            Value::Array(a) => {
                for i in [0usize, a.len().saturating_sub(1)] {
                    if let Some(c) = a.get(i) {
                        cur.push(format!("#{}", i));
                        paths(c, cur, out);
                        cur.pop();
                    }
                    if a.len() <= 1 {
                        break;
                    }
                }
            }
            _ => {}
        }
    }
    let mut all = Vec::new();
    paths(&doc, &mut Vec::new(), &mut all);
    fn remove(v: &mut Value, path: &[String]) -> bool {
        if path.len() == 1 {
            return v.as_object_mut().map(|m| m.remove(&path[0]).is_some()).unwrap_or(false);
        }
        let next = if let Some(i) = path[0].strip_prefix('#') { v.get_mut(i.parse::<usize>().unwrap_or(0)) } else { v.get_mut(&path[0]) };
        next.map(|n| remove(n, &path[1..])).unwrap_or(false)
    }
    fn set_null(v: &mut Value, path: &[String]) -> bool {
        if path.len() == 1 {
            return v.as_object_mut().and_then(|m| m.get_mut(&path[0])).map(|x| *x = Value::Null).is_some();
        }
        let next = if let Some(i) = path[0].strip_prefix('#') { v.get_mut(i.parse::<usize>().unwrap_or(0)) } else { v.get_mut(&path[0]) };
        next.map(|n| set_null(n, &path[1..])).unwrap_or(false)
    }
    let (mut accepted, mut tried, mut optional) = (0u64, 0u64, 0u64);
    for p in &all {
        let mut d = doc.clone();
        if !remove(&mut d, p) {
            continue;
        }
        tried += 1;
        rep.eval(1);
        // an optional field (one that also accepts null) is not a field with a silent default: leaving it out means "none",
        // which is another voice, possibly an inconsistent one - not this part's business
        let mut dn = doc.clone();
        if set_null(&mut dn, p) && matches!(catch(|| serde_json::from_value::<jbonsai::model::Voice>(dn)), Ok(Ok(_))) {
            optional += 1;
            continue;
        }
        let Ok(Ok(v2)) = catch(|| serde_json::from_value::<jbonsai::model::Voice>(d)) else { continue };
        accepted += 1;
        rep.cmp(1);
        let rp = json!({"voice": vc.name, "labels": labels, "serialized_voice_without_field": p.join(".")});
        let r = catch(|| engine_from_voices(vec![std::sync::Arc::new(v2)]).map_err(|e| e.to_string()).and_then(|e| e.synthesize(&labels[..]).map(|w| (w.len(), w.iter().all(|x| x.is_finite()))).map_err(|e| e.to_string())));
        match r {
            Ok(Ok((n, fin))) if n == want && fin => {}
            Ok(Ok((n, fin))) => rep.violation("serde-default-field", format!("a serialized voice without the field {} is accepted by Deserialize but synthesizes {} samples (finite: {}) instead of {}", p.join("."), n, fin, want), rp),
            Ok(Err(e)) => rep.violation("serde-default-field", format!("a serialized voice without the field {} is accepted by Deserialize but cannot be used: {}", p.join("."), e), rp),
            Err(pn) => rep.violation(format!("serde-default-field-panic@{}", site_of(&pn)), format!("a serialized voice without the field {} is accepted by Deserialize and then panics: {}", p.join("."), pn), rp),
        }
    }
    rep.note("serde_field_deletions", json!({"tried": tried, "optional_fields_skipped": optional, "accepted_by_deserialize": accepted}));
    rep.guard(tried > 20, "serialized voice has hardly any fields to delete");
}

pub fn run(tier: Tier) -> i32 {
    let rep = Report::new("C01", tier, "model_checking");
    rep.set_rule("SCOPE: voices {V0, P1(V0)} + generated G(ns in {2,3}, stage in {0..3}, nstate in {1,2,3,5,7}, 6 window sets incl. two with even-length windows, gv on/off) plus six voices with spectral orders 64..129, a four-window set and a 31-tap low-pass stream) x utterances (empty; 1 label over the cover set Lambda and one-group recombinations; label pairs; corpus windows of 3..8 labels; structurally extreme typed labels; on three generated voices the whole corpus twice as one utterance of 2912 labels) x every condition with <= d deviations from the default over the per-setter alphabets; each case synthesised by the real Engine inside catch_unwind; plus every serialized form of a voice with one field deleted that Deserialize still accepts (must synthesize like the original); plus a synthesis from a thread-local destructor while its thread shuts down (set up before / after the thread's first synthesis, or without one); distinct = (voice, condition, utterance); non-trivial = non-empty utterance");
    rep.assume("labels outside Lambda/RECOMB1/corpus windows, conditions with more deviations than the bound and utterances longer than 8 labels are not explored; stable range = conservative reading (|F1|,|F2|,|F1+F2| <= 4 on a 33-point grid; LSP: K>0, gaps >= pi/(4(order+1)))");
    let st = Stats { in_range: Default::default(), out_range: Default::default(), short_mean: Default::default(), nonfinite_ok: Default::default() };
    let corpus = labels::corpus();
    let lam = labels::lambda(&corpus);
    // ---------- generated voices ----------
    let mut fam = gen_family(tier.pick(&[0], &[0, 1]));
    // beyond the small scope: spectral orders around and above 64 and 128 (fixed-size scratch arrays, u8 counters),
    // a four-window set, long low-pass filters
    for (order, stage, ns, wset, lpf) in [(65usize, 0usize, 3usize, 2usize, 3usize), (64, 0, 2, 1, 3), (80, 0, 3, 8, 31), (129, 0, 3, 1, 5), (65, 1, 3, 2, 3), (66, 2, 2, 8, 3)] {
        fam.push(GenCfg { ns, stage, nstate: 2, wset, gv: stage == 0 && order < 100, order, lpf_taps: lpf, log_gain: stage == 2, ..GenCfg::default() });
    }
    // window sets whose static window is stored with zero padding
    for (wset, nstate, stage) in [(9usize, 1usize, 0usize), (10, 2, 0), (11, 3, 1), (9, 5, 2)] {
        fam.push(GenCfg { ns: 3, stage, nstate, wset, gv: false, order: 4, log_gain: false, ..GenCfg::default() });
    }
    let sub_labels: Vec<String> = ["sil", "a", "k", "N", "pau", "i"].iter().filter_map(|c| lam.iter().find(|l| labels::centre(l) == *c).cloned()).collect();
    let mut gutts: Vec<Utt> = vec![Utt::Strs(vec![])];
    for l in &sub_labels {
        gutts.push(Utt::Strs(vec![l.clone()]));
    }
    for a in &sub_labels[..4] {
        for b in &sub_labels[..4] {
            gutts.push(Utt::Strs(vec![a.clone(), b.clone()]));
        }
    }
    gutts.push(Utt::Strs(corpus[0..3].to_vec()));
    gutts.push(Utt::Strs(vec![corpus[1].clone(), String::new(), corpus[2].clone()]));
    gutts.push(Utt::Strs(corpus[100..108].to_vec()));
    // every length in between, so that label and state counts of either parity and every small multiple occur
    for n in 4..=7usize {
        gutts.push(Utt::Strs(corpus[200 + 10 * n..200 + 11 * n].to_vec()));
    }
    gutts.push(Utt::Strs(timed(&corpus[40..43], &[0.0, 0.05, 0.12, 0.2])));
    for u in partial_timed(&corpus[40..44]) {
        gutts.push(Utt::Strs(u));
    }
    let cells_hit = std::sync::Mutex::new(std::collections::BTreeSet::new());
    let load_fail = AtomicU64::new(0);
    rep.par_for(fam.len(), 1, "C01 part 1", |vi| {
        let cfg = &fam[vi];
        let vc = match voice_case(cfg) {
            Ok(v) => v,
            Err(e) => {
                load_fail.fetch_add(1, Ordering::Relaxed);
                rep.violation("voice-load", format!("supported generated voice does not load: {}", e), json!({"voice": cfg.describe()}));
                return;
            }
        };
        cells_hit.lock().unwrap().insert((cfg.ns, cfg.stage > 0, cfg.nstate));
        let full = vi % 20 == (seed() as usize) % 20;
        let depth = match (tier, full) {
            (Tier::Quick, false) => 1,
            (Tier::Quick, true) => 2,
            (Tier::Thorough, false) => 2,
            (Tier::Thorough, true) => 3,
        };
        let conds = conditions_upto(cfg.ns, depth);
        for (ci, acts) in conds.iter().enumerate() {
            for (ui, u) in gutts.iter().enumerate() {
                // deeper deviation levels only on the shorter utterances
                if acts.len() >= 2 && ui > 7 && ui + 5 < gutts.len() {
                    continue;
                }
                if acts.len() >= 3 && ui > 2 {
                    continue;
                }
                rep.distinct(fnv(format!("{}|{}|{}", vi, ci, ui).as_bytes()));
                check_one(&rep, &vc, acts, u, &st);
            }
        }
    });
    // beyond the small scope: the whole corpus twice as one utterance (2912 labels; 5824..14560 states), on three generated
    // voices, at the default condition and with two single deviations
    {
        let long = Utt::Strs(corpus.iter().chain(corpus.iter()).cloned().collect());
        let cfgs = [
            GenCfg { nstate: 3, ..GenCfg::default() },
            GenCfg { nstate: 5, ns: 2, stage: 2, order: 5, gv: true, ..GenCfg::default() },
            GenCfg { nstate: 2, wset: 3, lpf_taps: 5, ..GenCfg::default() },
        ];
        rep.par_for(cfgs.len() * 3, 1, "C01 long utterance", |j| {
            let Ok(vc) = voice_case(&cfgs[j / 3]) else { return };
            let acts: Vec<Act> = [vec![], vec![Act::Speed(2.0)], vec![Act::Beta(0.3)]][j % 3].clone();
            rep.distinct(fnv(format!("long|{}", j).as_bytes()));
            check_one(&rep, &vc, &acts, &long, &st);
        });
    }
    teardown_part(&rep);
    serde_deletion_part(&rep);
    unwritable_stderr_part(&rep, &["unknown-option", "untimed-final-label"]);
    // ---------- bundled voice and a perturbed copy ----------
    let v0 = v0_case(0);
    let p1 = v0_case(1);
    let mut vutts: Vec<Utt> = vec![Utt::Strs(vec![])];
    for l in &lam {
        vutts.push(Utt::Strs(vec![l.clone()]));
    }
    let rec = labels::recomb1(&lam, &lam);
    let rstride = tier.pick(97usize, 7usize);
    for l in rec.iter().skip(seed() as usize % rstride).step_by(rstride) {
        vutts.push(Utt::Strs(vec![l.clone()]));
    }
    for a in lam.iter().take(tier.pick(5, 12)) {
        for b in lam.iter().take(tier.pick(5, 12)) {
            vutts.push(Utt::Strs(vec![a.clone(), b.clone()]));
        }
    }
    let wstride = tier.pick(97usize, 13usize);
    for s in ((seed() as usize % wstride)..corpus.len() - 8).step_by(wstride) {
        vutts.push(Utt::Strs(corpus[s..s + 3].to_vec()));
        vutts.push(Utt::Strs(corpus[s..s + 8].to_vec()));
    }
    let base_label = labels::parse(&corpus[5]);
    let s1 = labels::struct1(&base_label);
    for l in &s1 {
        vutts.push(Utt::Typed(vec![l.clone()]));
    }
    vutts.push(Utt::Typed(s1.iter().take(6).cloned().collect()));
    vutts.push(Utt::Strs(timed(&corpus[40..43], &[0.0, 0.05, 0.12, 0.2])));
    let n_v0_default = vutts.len();
    rep.par_for(vutts.len(), 1, "C01 part 2", |ui| {
        rep.distinct(fnv(format!("V0|{}", ui).as_bytes()));
        check_one(&rep, &v0, &[], &vutts[ui], &st);
        if ui % 4 == 0 {
            check_one(&rep, &p1, &[], &vutts[ui], &st);
        }
    });
    // conditions on V0: <= 1 deviation (quick) / <= 2 (thorough) on a short utterance set
    let short: Vec<Utt> = vec![
        Utt::Strs(vec![lam.iter().find(|l| labels::centre(l) == "a").cloned().unwrap()]),
        Utt::Strs(corpus[40..42].to_vec()),
        Utt::Strs(timed(&corpus[40..43], &[0.0, 0.05, 0.12, 0.2])),
        Utt::Typed(vec![s1[3].clone()]),
        Utt::Strs(partial_timed(&corpus[40..44])[1].clone()),
        Utt::Strs(partial_timed(&corpus[40..44])[3].clone()),
    ];
    let conds = conditions_upto(3, tier.pick(1, 2));
    let jobs: Vec<(usize, usize)> = (0..conds.len()).flat_map(|c| (0..short.len()).map(move |u| (c, u))).collect();
    rep.par_for(jobs.len(), 1, "C01 part 3", |j| {
        let (ci, ui) = jobs[j];
        // long-waveform corners (speed 0.25 x fperiod 480) only on the 1-label utterance
        let heavy = conds[ci].iter().any(|a| matches!(a, Act::Speed(s) if *s < 1.0)) || conds[ci].iter().any(|a| matches!(a, Act::Fperiod(480)));
        if heavy && ui != 0 {
            return;
        }
        rep.distinct(fnv(format!("V0c|{}|{}", ci, ui).as_bytes()));
        check_one(&rep, &v0, &conds[ci], &short[ui], &st);
    });
    rep.nontrivial.store(rep.evaluations.load(Ordering::Relaxed), Ordering::Relaxed);
    let cells = cells_hit.lock().unwrap().len();
    rep.note("bounds", json!({"generated_voices": fam.len(), "generated_utterances": gutts.len(), "v0_utterances_default_condition": n_v0_default, "v0_conditions": conds.len(), "lambda": lam.len(), "recomb1_total": rec.len(), "recomb1_stride": rstride, "struct1_labels": s1.len(),
        "cases_in_stable_range": st.in_range.load(Ordering::Relaxed), "cases_outside_stable_range": st.out_range.load(Ordering::Relaxed), "cases_with_state_mean_below_half_frame": st.short_mean.load(Ordering::Relaxed), "nonfinite_after_runaway_growth": st.nonfinite_ok.load(Ordering::Relaxed), "voice_cells_(ns,lsp,nstate)": cells}));
    rep.sample(json!({"voice": fam[0].describe(), "condition": [], "labels": []}));
    rep.sample(json!({"voice": "V0", "condition": ["Beta(0.8)", "Gv(0, 2.0)"], "labels": [corpus[40], corpus[41]]}));
    rep.sample_last(json!({"voice": "V0", "condition": acts_json(conds.last().unwrap()), "labels": short[3].to_json()}));
    rep.guard(load_fail.load(Ordering::Relaxed) > 0 || cells == 2 * 2 * 5, "not every (streams, filter family, nstate) cell was exercised");
    rep.guard(st.short_mean.load(Ordering::Relaxed) > 0, "no state with model mean < 0.5 frames");
    rep.guard(st.out_range.load(Ordering::Relaxed) > 0, "no case outside the stable range");
    rep.guard(st.in_range.load(Ordering::Relaxed) > 0, "no case inside the stable range");
    rep.finish()
}

/// Re-run one recorded case (voice descriptor, condition, labels) without the enumerator.
pub fn replay(v: &Value) -> i32 {
    let name = v["voice"].as_str().unwrap_or("");
    let vc = if name == "V0" {
        v0_case(0)
    } else if name.starts_with('P') {
        v0_case(name[1..2].parse().unwrap_or(1))
    } else {
        match GenCfg::parse(name).and_then(|c| voice_case(&c).ok()) {
            Some(vc) => vc,
            None => {
                println!("cannot rebuild voice {}", name);
                return 2;
            }
        }
    };
    let acts: Vec<Act> = v["condition"].as_array().cloned().unwrap_or_default().iter().filter_map(|a| a.as_str().and_then(Act::parse_debug)).collect();
    let lines: Vec<String> = v["labels"].as_array().cloned().unwrap_or_default().iter().filter_map(|x| x.as_str().map(|s| s.to_string())).collect();
    let rep = Report::new("C01", Tier::Quick, "model_checking");
    let st = Stats { in_range: Default::default(), out_range: Default::default(), short_mean: Default::default(), nonfinite_ok: Default::default() };
    check_one(&rep, &vc, &acts, &Utt::Strs(lines.clone()), &st);
    let n = rep.violation_count();
    println!("voice {} condition {:?} labels {}: {}", name, acts, lines.len(), if n == 0 { "holds".to_string() } else { format!("{} violation(s)", n) });
    if n == 0 {
        0
    } else {
        // print them through the normal channel (replay files go under JBV_OUT or /verif/replays/C01)
        std::env::set_var("JBV_OUT", format!("{}/work/replay-out", VERIF));
        rep.finish();
        1
    }
}
