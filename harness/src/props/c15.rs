//! C15 – Additional half tone transposes F0 and nothing else.
use crate::common::*;
use crate::gen::cond::*;
use crate::gen::labels;
use crate::gen::voice::GenCfg;
use crate::props::c20::Act;
use jbonsai::model::Models;
use serde_json::json;
use std::sync::atomic::{AtomicU64, Ordering};
use std::sync::Mutex;

const NODATA: f64 = -1e10;
const HALF_TONE: f64 = std::f64::consts::LN_2 / 12.0;
const MIN_LF0: f64 = 2.995_732_273_553_991;
const MAX_LF0: f64 = 9.903_487_552_536_127;
pub const SHIFTS: [f64; 12] = [-24.0, -12.0, -1.0, -0.5, -0.009, 0.0, 0.00001, 0.004, 0.5, 1.0, 12.0, 24.0];

pub fn run(tier: Tier) -> i32 {
    let rep = Report::new("C15", tier, "model_checking");
    rep.set_rule("SCOPE: shifts {-24,-12,-1,-0.5,-0.009,0,1e-5,0.004,0.5,1,12,24} half tones (plus, per utterance, up to two shifts that carry one state's mean exactly onto the next state's) x voices (V0, P1..P3 with GV on; two-voice sets V0+Pk with weights (1.5,-.5), (.5,.5), (-.25,1.25); generated 2-/3-stream voices with GV off, also with the streams keyed MGC/F0/BAP) x (short utterances + corpus windows of 8 + windows around the lowest/highest-pitched voiced states + the whole corpus twice as one utterance of 2912 labels, thorough 11648) x (default + every single further deviation on the short set); trajectories through hook 1; oracle: same frame count and voiced pattern, lf0 shift = h ln2/12 (1e-9) on every voiced frame when no voiced state's mean reaches the 20 Hz..20 kHz clamp, spectrum and low-pass trajectories bit-identical, h=0 bit-identical to never calling the setter; a shift set before load_model equals setting it afterwards; a synthesis on another engine nested inside a pitch-shifted one (through AsRef<str> / ToLabels of the caller) leaves it bit-identical; distinct = (voice, other deviation, utterance, h); non-trivial = h != 0 and at least one voiced frame");
    rep.assume("shift lattice only; when some voiced state's shifted mean reaches the limit the expected trajectory is generated from the limited means through the public MlpgAdjust (itself checked by C05/C12)");
    let corpus = labels::corpus();
    let mut utts: Vec<Vec<String>> = vec![vec![corpus[41].clone()], corpus[40..43].to_vec()];
    let n_short = utts.len();
    let stride = tier.pick(31usize, 3usize);
    for s in ((seed() as usize % stride)..corpus.len() - 8).step_by(stride) {
        utts.push(corpus[s..s + 8].to_vec());
    }
    // utterances that reach the limit: corpus windows containing the lowest- and highest-pitched voiced states of V0
    {
        let e = engine_pk(&[0]);
        let mut scored: Vec<(f64, usize)> = Vec::new();
        for (i, l) in corpus.iter().enumerate() {
            let lab = [labels::parse(l)];
            let models = Models::new(&lab, &e.voices, e.condition.get_interporation_weight());
            for (p, msd) in models.model_stream(1).stream.iter() {
                if *msd > 0.5 {
                    scored.push((p[0].0, i));
                }
            }
        }
        scored.sort_by(|a, b| a.0.partial_cmp(&b.0).unwrap());
        let mut picks: Vec<usize> = scored.iter().take(tier.pick(3, 10)).map(|x| x.1).collect();
        picks.extend(scored.iter().rev().take(tier.pick(1, 4)).map(|x| x.1));
        picks.sort();
        picks.dedup();
        for i in picks {
            let a = i.saturating_sub(2).min(corpus.len() - 5);
            utts.push(corpus[a..a + 5].to_vec());
        }
    }
    let mut voices: Vec<(String, jbonsai::Engine, usize, bool)> = Vec::new();
    for k in 0..tier.pick(2, 4) {
        voices.push((if k == 0 { "V0".into() } else { format!("P{}(V0)", k) }, engine_pk(&[k]), 3, true));
    }
    // interpolated voice sets, incl. weights outside [0,1] (legal: they only have to sum to 1), where the mixed voicing
    // weight of a state can exceed 1
    for (k2, w) in [(2usize, [1.5, -0.5]), (1, [0.5, 0.5]), (3, [-0.25, 1.25])] {
        if tier == Tier::Quick && k2 == 3 {
            continue;
        }
        let mut e = engine_pk(&[0, k2]);
        let iw = e.condition.get_interporation_weight_mut();
        iw.set_duration(&w).expect("weights");
        for i in 0..3 {
            iw.set_parameter(i, &w).expect("weights");
        }
        for i in 0..2 {
            iw.set_gv(i, &w).expect("weights");
        }
        voices.push((format!("V0+P{}(V0) weights {:?}", k2, w), e, 3, true));
    }
    // Generated voices only with GV off: the property quantifies over the bundled voice and its perturbed
    // copies for "GV on"; on generated voices a (nearly) constant F0 trajectory makes GV amplify rounding
    // noise, which no shift law survives (see DESIGN §8).
    for cfg in [GenCfg { gv: false, nstate: 3, ..GenCfg::default() }, GenCfg { gv: false, ns: 2, stage: 2, order: 5, ..GenCfg::default() }, GenCfg { gv: false, nstate: 2, wset: 3, ..GenCfg::default() }] {
        voices.push((cfg.describe(), engine_from_bytes(&cfg.bytes()).expect("generated voice"), cfg.ns, false));
    }
    // the stream keys of the header are free-form: the same voices keyed MGC/F0/BAP instead of MCP/LF0/LPF
    for cfg in [GenCfg { gv: false, nstate: 3, ..GenCfg::default() }, GenCfg { gv: false, ns: 2, stage: 2, order: 5, ..GenCfg::default() }] {
        let mut spec = cfg.spec();
        for (st, name) in spec.streams.iter_mut().zip(["MGC", "F0", "BAP"]) {
            st.name = name.to_string();
        }
        voices.push((format!("{} keyed MGC/F0/BAP", cfg.describe()), engine_from_bytes(&crate::gen::voice::write(&spec)).expect("generated voice with other stream keys"), cfg.ns, false));
    }
    let worst = Mutex::new(0.0f64);
    let nontriv = AtomicU64::new(0);
    let clamped_cases = AtomicU64::new(0);
    let derived_shifts = AtomicU64::new(0);
    let mut jobs: Vec<(usize, usize, Vec<Act>)> = Vec::new();
    for (vi, v) in voices.iter().enumerate() {
        for ui in 0..utts.len() {
            if v.3 && ui >= n_short && vi > 0 && ui % 3 != 0 {
                continue;
            }
            jobs.push((vi, ui, vec![]));
            if ui < n_short {
                for d in deviations(v.2) {
                    if matches!(d, Act::HalfTone(_)) || matches!(d, Act::Speed(s) if s < 1.0) || matches!(d, Act::Fperiod(_)) || matches!(d, Act::Rate(_)) {
                        continue;
                    }
                    if v.3 && (ui > 0 || vi > 0) {
                        continue;
                    }
                    jobs.push((vi, ui, vec![d]));
                }
            }
        }
    }
    // beyond the small scope: the whole corpus read twice as one utterance (2912 labels: 8736 states on the 3-state generated
    // voice, 14560 on the bundled voice at speed 4), thorough: eight times (above 2^15 and 2^16 states)
    {
        let reps = tier.pick(2usize, 8usize);
        let long: Vec<String> = (0..reps).flat_map(|_| corpus.iter().cloned()).collect();
        utts.push(long);
        let gen3 = voices.iter().position(|v| !v.3).expect("a generated voice");
        jobs.push((gen3, utts.len() - 1, vec![]));
        jobs.push((0, utts.len() - 1, vec![Act::Speed(4.0)]));
    }
    // a pitch-shifted synthesis with another engine's synthesis nested inside it (through the caller's own label types)
    crate::props::c03::reentrant_part(&rep, "");
    rep.par_for(jobs.len(), 1, "C15 part 1", |j| {
        let (vi, ui, other) = &jobs[j];
        let v = &voices[*vi];
        let u = &utts[*ui];
        let e0 = with_cond(&v.1, other);
        let Ok(t0) = trajectories(&e0, u) else { return };
        // static lf0 means of all states (to decide whether a clamp is reached)
        let labs: Vec<jlabel::Label> = u.iter().map(|l| labels::parse(l)).collect();
        let models = Models::new(&labs, &e0.voices, e0.condition.get_interporation_weight());
        let thr = e0.condition.get_msd_threshold(1);
        let means: Vec<f64> = models.model_stream(1).stream.iter().filter(|(_, msd)| *msd > thr).map(|(p, _)| p[0].0).collect();
        // besides the lattice: shifts that carry one state's log-F0 mean exactly onto the next state's (a relation between
        // three numbers that no lattice contains) - searched among the few doubles around (m[i+1] - m[i]) / (ln2/12)
        let mut shifts: Vec<f64> = SHIFTS.to_vec();
        {
            let all: Vec<f64> = models.model_stream(1).stream.iter().map(|(p, _)| p[0].0).collect();
            let mut found = 0;
            for w in all.windows(2) {
                if found >= 2 || w[0] == w[1] {
                    continue;
                }
                let h0 = (w[1] - w[0]) / HALF_TONE;
                if !(h0.abs() <= 24.0) {
                    continue;
                }
                for k in -16i64..=16 {
                    let h = f64::from_bits((h0.to_bits() as i64 + k) as u64);
                    if w[0] + h * HALF_TONE == w[1] {
                        shifts.push(h);
                        found += 1;
                        break;
                    }
                }
            }
            derived_shifts.fetch_add(found as u64, Ordering::Relaxed);
        }
        for &h in &shifts {
            let mut e = e0.clone();
            e.condition.set_additional_half_tone(h);
            rep.eval(1);
            rep.distinct(fnv(format!("{}|{}|{:?}|{}", vi, ui, other, h).as_bytes()));
            let rp = json!({"voice": v.0, "other_condition": acts_json(other), "labels": u, "half_tone": h});
            let t = match trajectories(&e, u) {
                Ok(t) => t,
                Err(er) => {
                    rep.violation("synthesis", format!("generator fails with half tone {}: {}", h, er), rp);
                    continue;
                }
            };
            rep.cmp(4);
            rep.outcome(hash_f64s(&t.1.iter().flatten().cloned().collect::<Vec<f64>>()));
            // the same settings copied onto a scratch condition / engine with clone_from: same trajectories
            if u.len() <= 8 && (j + (h.abs() * 4.0) as usize) % 4 == 0 {
                for whole in [false, true] {
                    rep.cmp(1);
                    match catch(|| trajectories(&via_clone_from(&e, whole), u)) {
                        Ok(Ok(t2)) if bits_eq2(&t2.0, &t.0) && bits_eq2(&t2.1, &t.1) && bits_eq2(&t2.2, &t.2) => {}
                        _ => rep.violation("clone-from", format!("an engine that got its settings (half tone {}) through {}::clone_from onto a scratch object with other values generates other trajectories", h, if whole { "Engine" } else { "Condition" }), rp.clone()),
                    }
                }
            }
            if t.1.len() != t0.1.len() {
                rep.violation("durations", format!("{} frames with h={} vs {} without", t.1.len(), h, t0.1.len()), rp);
                continue;
            }
            if !bits_eq2(&t.0, &t0.0) {
                rep.violation("spectrum-changed", format!("spectral trajectory changes with half tone {}", h), rp.clone());
            }
            if !bits_eq2(&t.2, &t0.2) {
                rep.violation("lpf-changed", format!("low-pass trajectory changes with half tone {}", h), rp.clone());
            }
            if h == 0.0 {
                if !bits_eq2(&t.1, &t0.1) {
                    rep.violation("identity", "h = 0 is not the identity", rp);
                }
                continue;
            }
            let pattern_same = t.1.iter().zip(&t0.1).all(|(a, b)| (a[0] == NODATA) == (b[0] == NODATA));
            if !pattern_same {
                rep.violation("voicing-changed", format!("voiced/unvoiced pattern changes with half tone {}", h), rp);
                continue;
            }
            let nvoiced = t0.1.iter().filter(|f| f[0] != NODATA).count();
            if nvoiced > 0 {
                nontriv.fetch_add(1, Ordering::Relaxed);
            }
            let clamped = means.iter().any(|m| {
                let s = m + h * HALF_TONE;
                s <= MIN_LF0 || s >= MAX_LF0 || *m <= MIN_LF0 || *m >= MAX_LF0
            });
            if clamped {
                clamped_cases.fetch_add(1, Ordering::Relaxed);
                // "until the 20 Hz..20 kHz limit is reached": the trajectory must be the one generated from the
                // states' means shifted and limited to the range (built here from the public model and MLPG API)
                let mut ms = models.model_stream(1);
                let shifted: Vec<(Vec<jbonsai::model::MeanVari>, f64)> = ms
                    .stream
                    .iter()
                    .map(|(p, msd)| {
                        let mut p = p.clone();
                        p[0].0 = (p[0].0 + h * HALF_TONE).clamp(MIN_LF0, MAX_LF0);
                        (p, *msd)
                    })
                    .collect();
                ms.stream = jbonsai::model::StreamParameter::new(shifted);
                let est = jbonsai::duration::DurationEstimator::new(models.duration(), models.nstate());
                let d = if e.condition.get_phoneme_alignment_flag() { continue } else { est.create(e.condition.get_speed()) };
                let want = jbonsai::mlpg_adjust::MlpgAdjust::new(e.condition.get_gv_weight(1), e.condition.get_msd_threshold(1), ms).create(&d);
                rep.cmp(1);
                let ok = want.len() == t.1.len() && want.iter().zip(&t.1).all(|(a, b)| (a[0] == NODATA && b[0] == NODATA) || (a[0] - b[0]).abs() <= 1e-9);
                if !ok {
                    rep.violation("clamp", format!("h={}: a voiced state's shifted mean reaches the 20 Hz..20 kHz limit, and the log-F0 trajectory is not the one generated from the limited means", h), rp.clone());
                }
                continue;
            }
            let want = h * HALF_TONE;
            let mut wr = 0.0f64;
            for (fi, (a, b)) in t.1.iter().zip(&t0.1).enumerate() {
                if b[0] == NODATA {
                    continue;
                }
                rep.cmp(1);
                let err = ((a[0] - b[0]) - want).abs();
                wr = wr.max(err);
                if !(err <= 1e-9) {
                    rep.violation("shift", format!("frame {}: log-F0 moves by {} for h={}, want h*ln2/12 = {}", fi, a[0] - b[0], h, want), rp.clone());
                    break;
                }
            }
            let mut w = worst.lock().unwrap();
            *w = w.max(wr);
        }
    });
    // a pitch shift chosen before the voices are bound (Condition::default, set_additional_half_tone, load_model,
    // Engine::new) is the caller's setting, not the voice's: it must be in force exactly as when set after loading
    {
        let cfg = GenCfg { gv: false, nstate: 2, ..GenCfg::default() };
        let voice = std::sync::Arc::new(load_voice_bytes(&cfg.bytes()).expect("generated voice"));
        let u = vec![corpus[41].clone(), corpus[42].clone()];
        for &h in &[3.0, -5.0] {
            rep.eval(1);
            let r = catch(|| -> Result<(Traj, f64, Traj), String> {
                let vs = jbonsai::model::VoiceSet::new(vec![voice.clone()]).map_err(|e| e.to_string())?;
                let mut c = jbonsai::Condition::default();
                c.set_additional_half_tone(h);
                c.load_model(&vs).map_err(|e| e.to_string())?;
                let mut before = jbonsai::Engine::new(vs.clone(), c);
                let mut after = engine_from_voices(vec![voice.clone()]).map_err(|e| e.to_string())?;
                after.condition.set_additional_half_tone(h);
                // a low F0 threshold on both, so that there are voiced frames to shift
                before.condition.set_msd_threshold(1, 0.05);
                after.condition.set_msd_threshold(1, 0.05);
                Ok((trajectories(&before, &u)?, before.condition.get_additional_half_tone(), trajectories(&after, &u)?))
            });
            rep.cmp(2);
            match r {
                Ok(Ok((tb, gh, ta))) => {
                    if !bits_eq2(&tb.1, &ta.1) || gh != h {
                        rep.violation("set-before-load", format!("set_additional_half_tone({}) before load_model: the getter returns {} and the log-F0 trajectory {} the one obtained by setting it after loading", h, gh, if bits_eq2(&tb.1, &ta.1) { "equals" } else { "differs from" }), json!({"voice": cfg.describe(), "half_tone": h, "labels": u}));
                    }
                }
                other => rep.violation("set-before-load", format!("set_additional_half_tone before load_model fails: {:?}", other.map(|_| ())), json!({"voice": cfg.describe(), "half_tone": h})),
            }
        }
    }
    rep.nontrivial.store(nontriv.load(Ordering::Relaxed), Ordering::Relaxed);
    rep.note("bounds", json!({"shifts": SHIFTS, "voices": voices.iter().map(|v| v.0.clone()).collect::<Vec<_>>(), "utterances": utts.len(), "corpus_stride": stride, "jobs": jobs.len(), "worst_shift_error": *worst.lock().unwrap(), "cases_reaching_the_clamp": clamped_cases.load(Ordering::Relaxed), "shifts_mapping_one_state_mean_onto_the_next": derived_shifts.load(Ordering::Relaxed)}));
    rep.sample(json!({"voice": "V0", "other_condition": [], "labels": utts[0], "half_tone": -24.0}));
    rep.sample_last(json!({"voice": voices.last().unwrap().0, "labels": utts.last().unwrap(), "half_tone": 24.0}));
    rep.guard(nontriv.load(Ordering::Relaxed) > 100, "too few voiced non-zero-shift cases");
    rep.guard(clamped_cases.load(Ordering::Relaxed) > 0, "no case reaches the 20 Hz..20 kHz limit");
    rep.finish()
}
