//! C17 – All label input forms agree; bad label text is an error.
use crate::common::*;
use crate::gen::cond::*;
use crate::gen::labels;
use crate::gen::voice::GenCfg;
use jbonsai::Engine;
use serde_json::json;
use std::sync::atomic::{AtomicU64, Ordering};

fn forms(e: &Engine, lines: &[String]) -> Vec<(String, Result<Vec<f64>, String>)> {
    let mut out = Vec::new();
    let strs: Vec<&str> = lines.iter().map(|s| s.as_str()).collect();
    let run = |f: &dyn Fn() -> Result<Vec<f64>, jbonsai::EngineError>| -> Result<Vec<f64>, String> {
        match catch(f) {
            Ok(Ok(w)) => Ok(w),
            Ok(Err(er)) => Err(format!("error: {}", er)),
            Err(p) => Err(format!("panic: {}", p)),
        }
    };
    out.push(("&[&str]".to_string(), run(&|| e.synthesize(&strs[..]))));
    out.push(("&[String]".to_string(), run(&|| e.synthesize(lines))));
    out.push(("Vec<String>".to_string(), run(&|| e.synthesize(lines.to_vec()))));
    macro_rules! arr {
        ($($n:literal),*) => {
            $( if strs.len() == $n { let a: [&str; $n] = strs.clone().try_into().unwrap(); out.push((format!("&[&str; {}]", $n), run(&|| e.synthesize(&a)))); } )*
        };
    }
    arr!(0, 1, 2, 3, 4, 5, 6, 7, 8, 9);
    out
}

fn strip_times(l: &str) -> &str {
    let mut it = l.splitn(3, ' ');
    let a = it.next().unwrap();
    match (it.next(), it.next()) {
        (Some(_), Some(c)) => c,
        _ => a,
    }
}

/// Is the line certainly ill-formed (decided without the crate's parser)?
fn certainly_ill_formed(line: &str) -> Option<&'static str> {
    let mut it = line.splitn(3, ' ');
    let first = it.next().unwrap();
    let label = match (it.next(), it.next()) {
        (None, _) => {
            if first.is_empty() {
                return None; // blank line: skipped
            }
            first
        }
        (Some(_), None) => return Some("two tokens, no label"),
        (Some(second), Some(third)) => {
            if first.parse::<f64>().is_err() || second.parse::<f64>().is_err() {
                return Some("unparsable time");
            }
            third
        }
    };
    let mut pos = 0usize;
    let Some(a) = label.find("/A:") else { return Some("label lacks /A:") };
    let ph = &label[..a];
    for sep in ['^', '-', '+', '='] {
        match ph[pos..].find(sep) {
            Some(i) => pos += i + 1,
            None => return Some("label lacks a phoneme separator"),
        }
    }
    let mut p = a;
    for m in ["/A:", "/B:", "/C:", "/D:", "/E:", "/F:", "/G:", "/H:", "/I:", "/J:", "/K:"] {
        match label[p..].find(m) {
            Some(i) => p += i + 3,
            None => return Some("label lacks a section marker"),
        }
    }
    None
}

pub fn run(tier: Tier) -> i32 {
    let rep = Report::new("C17", tier, "model_checking");
    rep.set_rule("SCOPE: (forms) utterances (incl. labels whose first phoneme is named like a number (2, -1, 1e3, .5, +0) or starts with a byte order mark or an exotic space; one utterance of 300 lines; inputs of 1023..65537 lines (thorough: 300001) compared as parsed label lists and time stamps, with blank lines and with one malformed line; sentence ends on a voice whose trees ask about the undefined-phoneme marker) x {&[&str], &[String], Vec<String>, &[&str; N], Vec<Label>} x a blank line inserted at every position x time stamps present/absent/zero-length/all zero/backwards/astronomical with alignment off (utterances incl. one with sil and pau labels), and time-stamped lines with blank lines at every position with alignment on, waveforms compared bit-exactly; string forms against already parsed labels also under alignment on with speed 1.4 / 0.7 and under speed 2.5 with frame period 41; (faults) 5 base lines (plain label, label with times, label with fractional times, and two already ill-formed ones: one time stamp deleted, /K: section deleted): every single-character deletion, duplication, and substitution/insertion from a 39-symbol alphabet (incl. line breaks, byte order mark, no-break / zero-width / ideographic space, NEL, line separator) at every position, every prefix truncation, every token deletion/duplication, 14 special time tokens; thorough: all pairs of substitutions on a 40-character window; oracle: never a panic, Err required for certainly ill-formed lines (two tokens, time rejected by f64::from_str, missing phoneme separator or /A:../K: marker); distinct = distinct corrupted line; non-trivial = line differs from the base");
    rep.assume("single faults (pairs on one window in the thorough tier); lines that are not certainly ill-formed may be accepted or rejected");
    let corpus = labels::corpus();
    let tiny = engine_from_bytes(&GenCfg { nstate: 2, ..GenCfg::default() }.bytes()).expect("generated voice");
    let v0 = engine_pk(&[0]);
    // ---------- forms ----------
    let mut utts: Vec<Vec<String>> = vec![vec![], vec![corpus[41].clone()], corpus[40..43].to_vec(), corpus[0..2].to_vec(), corpus[100..105].to_vec()];
    // labels whose text starts like a number (a phoneme named "2", "-1", "1e3", ".5"): still labels, not time stamps
    // ... or like something a text reader might strip (byte order mark, no-break and ideographic space, zero-width space)
    for name in ["2", "-1", "1e3", ".5", "+0", "\u{feff}a", "\u{a0}k", "\u{3000}", "\u{200b}o"] {
        let u: Vec<String> = corpus[40..42].iter().map(|l| format!("{}{}", name, &l[l.find('^').unwrap()..])).collect();
        if u.iter().all(|l| l.parse::<jlabel::Label>().is_ok()) {
            utts.insert(2, u);
        }
    }
    // silence and pause labels inside the utterance (the labels aligners treat specially)
    {
        let pick = |c: &str| corpus.iter().find(|l| labels::centre(l) == c).cloned();
        if let (Some(sil), Some(pau)) = (pick("sil"), pick("pau")) {
            utts.insert(2, vec![sil.clone(), corpus[41].clone(), pau, corpus[42].clone(), sil]);
        }
    }
    let numberlike = utts.len() - 6;
    // beyond the small scope: one utterance of 300 lines (only on the tiny voice; it is the last entry)
    utts.push(corpus[0..300].to_vec());
    rep.guard(numberlike >= 2, "no number-like label accepted by the label parser");
    let form_cases = AtomicU64::new(0);
    // a voice whose trees ask whether the phoneme after next is undefined ("*=xx/A:*"), on the ends of sentences (where
    // that slot is xx, and where consecutive labels share everything from /A: on)
    let txx = engine_from_bytes(&GenCfg { nstate: 2, tree: 2, ..GenCfg::default() }.bytes()).expect("generated voice");
    let ends: Vec<usize> = (3..corpus.len()).filter(|i| corpus[*i].contains("=xx/A:")).take(3).collect();
    rep.guard(!ends.is_empty(), "no sentence end found in the corpus");
    let n_general = utts.len();
    for i in &ends {
        utts.push(corpus[i - 3..(i + 2).min(corpus.len())].to_vec());
    }
    for (ename, e, utt_limit) in [("G", &tiny, n_general), ("V0", &v0, (tier.pick(3, 4) + numberlike).min(n_general - 1)), ("Gxx", &txx, utts.len())] {
        for u in utts.iter().take(utt_limit).skip(if ename == "Gxx" { n_general } else { 0 }) {
            let base = match synth(e, u) {
                Ok(b) => b,
                Err(why) => {
                    rep.violation("base", format!("well-formed label lines given as strings are not synthesized: {}", why), json!({"engine": ename, "labels": u}));
                    continue;
                }
            };
            let mut variants: Vec<(String, Vec<String>)> = vec![("plain".into(), u.clone())];
            let positions: Vec<usize> = if u.len() > 20 { vec![0, 1, u.len() / 2, 255.min(u.len()), 256.min(u.len()), u.len() - 1, u.len()] } else { (0..=u.len()).collect() };
            for pos in positions {
                let mut v = u.clone();
                v.insert(pos, String::new());
                variants.push((format!("blank line at {}", pos), v));
            }
            if !u.is_empty() {
                let timed: Vec<String> = u.iter().enumerate().map(|(i, l)| format!("{} {} {}", i * 1_000_000, (i + 1) * 1_000_000 + 3, l)).collect();
                variants.push(("with time stamps (alignment off)".into(), timed.clone()));
                let mut tb = timed.clone();
                tb.insert(1.min(tb.len()), String::new());
                variants.push(("time stamps + blank line".into(), tb));
                let mixed: Vec<String> = u.iter().enumerate().map(|(i, l)| if i % 2 == 0 { format!("0 5000000 {}", l) } else { l.clone() }).collect();
                variants.push(("time stamps on every other line".into(), mixed));
                // odd but parsable time stamps: with alignment off they must not matter at all
                let zero_len: Vec<String> = u.iter().enumerate().map(|(i, l)| format!("{} {} {}", i * 1_000_000, i * 1_000_000, l)).collect();
                variants.push(("zero-length segments (start = end)".into(), zero_len));
                let all_zero: Vec<String> = u.iter().map(|l| format!("0 0 {}", l)).collect();
                variants.push(("all time stamps 0 0".into(), all_zero));
                let backwards: Vec<String> = u.iter().enumerate().map(|(i, l)| format!("{} {} {}", (u.len() - i) * 1_000_000, (u.len() - i - 1) * 1_000_000, l)).collect();
                variants.push(("time stamps running backwards".into(), backwards));
                let far: Vec<String> = u.iter().enumerate().map(|(i, l)| format!("{} {} {}", 1_000_000_000_000_000u64 + i as u64, 2_000_000_000_000_000u64, l)).collect();
                variants.push(("astronomical time stamps".into(), far));
            }
            for (vname, lines) in &variants {
                for (fname, r) in forms(e, lines) {
                    rep.eval(1);
                    form_cases.fetch_add(1, Ordering::Relaxed);
                    rep.distinct(fnv(format!("{}|{:?}|{}|{}", ename, u.first(), vname, fname).as_bytes()));
                    rep.cmp(1);
                    match r {
                        Ok(w) if bits_eq(&w, &base) => {}
                        Ok(w) => rep.violation("forms-differ", format!("{} ({}) gives a different waveform ({} vs {} samples) on {}", fname, vname, w.len(), base.len(), ename), json!({"engine": ename, "form": fname, "variant": vname, "lines": lines})),
                        Err(er) => rep.violation(if er.starts_with("panic") { "forms-panic" } else { "forms-error" }, format!("{} ({}) fails: {}", fname, vname, er), json!({"engine": ename, "form": fname, "variant": vname, "lines": lines})),
                    }
                }
            }
            // with alignment ON the time stamps matter, but blank lines still must not: the timed utterance with a
            // blank line at every position (and in every string form) equals the timed utterance without blanks
            if !u.is_empty() {
                let mut ea = (*e).clone();
                ea.condition.set_phoneme_alignment_flag(true);
                let timed: Vec<String> = u.iter().enumerate().map(|(i, l)| format!("{} {} {}", i * 1_500_000, (i + 1) * 1_500_000, l)).collect();
                if let Ok(base_a) = synth(&ea, &timed) {
                    let positions: Vec<usize> = if timed.len() > 20 { vec![0, 1, timed.len() / 2, 255.min(timed.len()), 256.min(timed.len()), timed.len() - 1, timed.len()] } else { (0..=timed.len()).collect() };
                    for pos in positions {
                        let mut v = timed.clone();
                        v.insert(pos, String::new());
                        if pos % 2 == 0 {
                            v.insert(pos, String::new());
                        }
                        for (fname, r) in forms(&ea, &v) {
                            rep.eval(1);
                            form_cases.fetch_add(1, Ordering::Relaxed);
                            rep.cmp(1);
                            match r {
                                Ok(w) if bits_eq(&w, &base_a) => {}
                                Ok(w) => rep.violation("forms-differ-aligned", format!("{} with blank line(s) at {} and alignment on gives a different waveform ({} vs {} samples) on {}", fname, pos, w.len(), base_a.len(), ename), json!({"engine": ename, "form": fname, "alignment": true, "lines": v})),
                                Err(er) => rep.violation(if er.starts_with("panic") { "forms-panic" } else { "forms-error" }, format!("{} (aligned, blank at {}) fails: {}", fname, pos, er), json!({"engine": ename, "form": fname, "alignment": true, "lines": v})),
                            }
                        }
                    }
                }
            }
            // parsed labels
            let parsed: Vec<jlabel::Label> = u.iter().map(|l| labels::parse(l)).collect();
            rep.eval(1);
            match catch(|| e.synthesize(parsed.clone())) {
                Ok(Ok(w)) if bits_eq(&w, &base) => {}
                other => rep.violation("forms-differ", format!("Vec<Label> form differs or fails: {:?}", other.map(|r| r.map(|w| w.len()).map_err(|e| e.to_string()))), json!({"engine": ename, "form": "Vec<Label>", "lines": u})),
            }
        }
    }
    // the same agreement under conditions that steer the duration path: alignment on (with lines that carry no times, some
    // times, all times) together with a speed other than 1, a pitch shift, another frame period - what the settings mean is
    // C08/C09's business, here every form must simply mean the same
    {
        let conds: Vec<(&str, Vec<crate::props::c20::Act>)> = vec![
            ("alignment on, speed 1.4", vec![crate::props::c20::Act::Align(true), crate::props::c20::Act::Speed(1.4)]),
            ("alignment on, speed 0.7, +3 half tones", vec![crate::props::c20::Act::Align(true), crate::props::c20::Act::Speed(0.7), crate::props::c20::Act::HalfTone(3.0)]),
            ("alignment off, speed 2.5, frame period 41", vec![crate::props::c20::Act::Speed(2.5), crate::props::c20::Act::Fperiod(41)]),
        ];
        for (ename, e0) in [("G", &tiny), ("V0", &v0)] {
            for (cname, acts) in &conds {
                let e = with_cond(e0, acts);
                for u in [corpus[40..43].to_vec(), vec![corpus[41].clone()], corpus[100..105].to_vec()] {
                    if ename == "V0" && u.len() > 3 {
                        continue;
                    }
                    let parsed: Vec<jlabel::Label> = u.iter().map(|l| labels::parse(l)).collect();
                    let Ok(Ok(base)) = catch(|| e.synthesize(parsed.clone())) else {
                        rep.violation("forms-error", format!("Vec<Label> form fails under {}", cname), json!({"engine": ename, "condition": cname, "lines": u}));
                        continue;
                    };
                    let mut blank = u.clone();
                    blank.insert(1.min(blank.len()), String::new());
                    for (vname, lines) in [("plain", &u), ("blank line", &blank)] {
                        for (fname, r) in forms(&e, lines) {
                            rep.eval(1);
                            rep.cmp(1);
                            form_cases.fetch_add(1, Ordering::Relaxed);
                            match r {
                                Ok(w) if bits_eq(&w, &base) => {}
                                Ok(w) => rep.violation("forms-differ-condition", format!("under {}: {} ({}) gives {} samples, the already parsed labels give {} on {}", cname, fname, vname, w.len(), base.len(), ename), json!({"engine": ename, "condition": cname, "form": fname, "variant": vname, "lines": lines})),
                                Err(er) => rep.violation(if er.starts_with("panic") { "forms-panic" } else { "forms-error" }, format!("under {}: {} ({}) fails: {}", cname, fname, vname, er), json!({"engine": ename, "condition": cname, "form": fname, "lines": lines})),
                            }
                        }
                    }
                }
            }
        }
    }
    // ---------- long inputs, at the level of the parsed label list ----------
    // far more lines than any synthesized case (counts around 2^11, 2^12, 2^13, 2^16): every string form must give the same
    // labels, in order, and the same time stamps as the already-parsed form; a malformed last line must still be an error
    {
        use jbonsai::label::ToLabels;
        let counts: Vec<usize> = tier.pick(vec![1023, 2047, 2048, 2049, 2100, 4099, 8191, 8200, 20001, 65537], vec![1023, 2047, 2048, 2049, 2100, 4099, 8191, 8200, 16385, 20001, 32771, 65537, 131075, 300001]);
        let long_cases = AtomicU64::new(0);
        rep.par_for(counts.len(), 1, "C17 long inputs", |ci| {
            let n = counts[ci];
            let cond = tiny.condition.clone();
            let rate = cond.get_sampling_frequency() as f64 / (cond.get_fperiod() as f64 * 1e7);
            let plain: Vec<String> = (0..n).map(|i| corpus[(i * 7 + i / corpus.len()) % corpus.len()].clone()).collect();
            let parsed: Vec<jlabel::Label> = plain.iter().map(|l| labels::parse(l)).collect();
            let timed: Vec<String> = plain.iter().enumerate().map(|(i, l)| format!("{} {} {}", i * 50_000, (i + 1) * 50_000, l)).collect();
            let want_times: Vec<(f64, f64)> = (0..n).map(|i| ((i * 50_000) as f64 * rate, ((i + 1) * 50_000) as f64 * rate)).collect();
            let mut blanks = timed.clone();
            for pos in [n, n - 1, n / 2, n / 8 + 1, 1, 0] {
                blanks.insert(pos, String::new());
            }
            for (vname, lines, times) in [("plain", &plain, false), ("time stamps", &timed, true), ("time stamps + blank lines", &blanks, true)] {
                let strs: Vec<&str> = lines.iter().map(|x| x.as_str()).collect();
                let forms: Vec<(&str, Result<Result<jbonsai::label::Labels, jbonsai::label::LabelError>, String>)> = vec![
                    ("&[&str]", catch(|| (&strs[..]).to_labels(&cond))),
                    ("&[String]", catch(|| (&lines[..]).to_labels(&cond))),
                    ("Vec<String>", catch(|| lines.clone().to_labels(&cond))),
                ];
                for (fname, r) in forms {
                    rep.eval(1);
                    rep.cmp(1);
                    long_cases.fetch_add(1, Ordering::Relaxed);
                    let rp = json!({"long_input": {"lines": n, "variant": vname, "form": fname, "line_i": "corpus[(7 i + i / len) mod len], time stamps 50000 i .. 50000 (i+1)"}});
                    match r {
                        Err(p) => rep.violation("forms-panic", format!("{} lines ({}) as {}: panic {}", n, vname, fname, p), rp),
                        Ok(Err(er)) => rep.violation("forms-error", format!("{} well-formed lines ({}) as {} rejected: {}", n, vname, fname, er), rp),
                        Ok(Ok(l)) => {
                            if l.labels().len() != n || l.labels() != &parsed[..] {
                                let first = l.labels().iter().zip(&parsed).position(|(a, b)| a != b).unwrap_or(l.labels().len().min(n));
                                rep.violation("forms-differ-long", format!("{} lines ({}) as {} give {} labels; first difference from the parsed form at index {}", n, vname, fname, l.labels().len(), first), rp);
                            } else if times && !(l.times().len() == n && l.times().iter().zip(&want_times).all(|(a, b)| (a.0 - b.0).abs() <= 1e-9 * b.0.max(1.0) && (a.1 - b.1).abs() <= 1e-9 * b.1.max(1.0))) {
                                rep.violation("forms-times-long", format!("{} lines ({}) as {}: time stamps are not start/end x rate / (fperiod x 1e7), line by line", n, vname, fname), rp);
                            }
                        }
                    }
                }
            }
            // one malformed line (its label cut after /K:) at the end, in the middle, at the start
            for pos in [n - 1, n / 2 + 1, n - n / 9, 0] {
                let mut bad = timed.clone();
                bad[pos] = bad[pos].split("/K:").next().unwrap().to_string();
                rep.eval(1);
                rep.cmp(1);
                let rp = json!({"long_input": {"lines": n, "malformed_line_at": pos}});
                match catch(|| (&bad[..]).to_labels(&cond)) {
                    Err(p) => rep.violation("forms-panic", format!("{} lines with a malformed line at {}: panic {}", n, pos, p), rp),
                    Ok(Ok(_)) => rep.violation("fault-accepted-long", format!("{} lines with a malformed line (label cut before /K:) at index {} are accepted", n, pos), rp),
                    Ok(Err(_)) => {}
                }
            }
        });
        rep.note("long_inputs", json!({"line_counts": counts, "cases": long_cases.load(Ordering::Relaxed)}));
    }
    // ---------- faults ----------
    unwritable_stderr_part(&rep, &["label-error"]);
    let alphabet: Vec<String> = vec![" ", "\t", "\0", "/", ":", "+", "-", "=", "^", "_", "!", "#", "@", "|", "&", "%", "0", "9", "x", "a", "A", "Z", ".", "e", "E", "*", "?", "\"", "\u{3042}", "\u{7f}", "\n", "\r\n", "\r", "\u{feff}", "\u{a0}", "\u{200b}", "\u{85}", "\u{2028}", "\u{3000}"].into_iter().map(String::from).collect();
    // three well-formed bases, and two that are already ill-formed (every fault on them is a double fault of the
    // original line): a two-token line (one time stamp deleted) and a timed line whose label lost its /K: section
    let bases: Vec<String> = vec![
        corpus[41].clone(),
        format!("0 3000000 {}", corpus[42]),
        format!("1234.5 2.5e6 {}", corpus[1]),
        format!("3000000 {}", corpus[42]),
        format!("0 3000000 {}", corpus[42].split("/K:").next().unwrap()),
    ];
    let mut lines: Vec<String> = Vec::new();
    for b in &bases {
        let chars: Vec<(usize, char)> = b.char_indices().collect();
        for (ci, (bi, ch)) in chars.iter().enumerate() {
            let end = bi + ch.len_utf8();
            lines.push(format!("{}{}", &b[..*bi], &b[end..])); // deletion
            lines.push(format!("{}{}{}", &b[..end], ch, &b[end..])); // duplication
            lines.push(b[..*bi].to_string()); // prefix truncation
            for s in &alphabet {
                if tier == Tier::Quick && ci % 2 == 1 && s.len() == 1 && s.as_bytes()[0].is_ascii_alphanumeric() {
                    continue;
                }
                lines.push(format!("{}{}{}", &b[..*bi], s, &b[end..])); // substitution
                lines.push(format!("{}{}{}", &b[..*bi], s, &b[*bi..])); // insertion
            }
        }
        // token deletion / duplication (tokens = space separated and '/'-separated sections)
        let toks: Vec<&str> = b.split(' ').collect();
        for i in 0..toks.len() {
            let mut t = toks.clone();
            t.remove(i);
            lines.push(t.join(" "));
            let mut t = toks.clone();
            t.insert(i, toks[i]);
            lines.push(t.join(" "));
        }
        let secs: Vec<&str> = b.split('/').collect();
        for i in 0..secs.len() {
            let mut t = secs.clone();
            t.remove(i);
            lines.push(t.join("/"));
            let mut t = secs.clone();
            t.insert(i, secs[i]);
            lines.push(t.join("/"));
            let mut t = secs.clone();
            t.swap(i, (i + 1) % secs.len());
            lines.push(t.join("/"));
        }
    }
    for tok in ["nan", "NaN", "inf", "-inf", "1e400", "-5", "1e30", "", "+3", ".5", "5.", "0x10", "1_000", "１２"] {
        lines.push(format!("{} 3000000 {}", tok, corpus[42]));
        lines.push(format!("0 {} {}", tok, corpus[42]));
        lines.push(format!("{} {} {}", tok, tok, corpus[42]));
    }
    // long bad lines made of multi-byte characters: whatever byte position an error path cuts, quotes or scans
    // to, some line has a character straddling it (pad unit = 2-, 3- and 4-byte character, 9 bytes; ASCII
    // shifts 0..9 cover every phase), in every token position of every line shape (1, 2, 3 tokens)
    let mut long_bad = 0u64;
    {
        let lab = &corpus[42];
        let cut_lab = lab.split("/K:").next().unwrap();
        let lens: &[usize] = if tier == Tier::Quick { &[40, 64, 128, 256, 512, 1024, 4096] } else { &[16, 32, 40, 64, 80, 100, 128, 200, 256, 300, 512, 1000, 1024, 2048, 4096, 8192, 65536] };
        for &len in lens {
            for shift in 0..9usize {
                let mut pad = "x".repeat(shift);
                while pad.len() < len + 9 {
                    pad.push_str("\u{e9}\u{3042}\u{2000b}");
                }
                for l in [
                    format!("{}{}", cut_lab, pad),
                    pad.clone(),
                    format!("3000000 {}{}", cut_lab, pad),
                    format!("3000000 {}{}", lab, pad),
                    format!("{} {}", pad, lab),
                    format!("{} {}", pad, pad),
                    format!("0 {} {}", pad, lab),
                    format!("{} 3000000 {}", pad, lab),
                    format!("0 3000000 {}{}", cut_lab, pad),
                    format!("0 3000000 {}", pad),
                    format!("{}0 3000000 {}", pad, lab),
                ] {
                    lines.push(l);
                    long_bad += 1;
                }
            }
        }
    }
    if tier == Tier::Thorough {
        let b = &bases[1];
        let win: Vec<usize> = (0..40).collect();
        let syms = ["/", ":", " ", "x", "0", "+", "\u{3042}", "-"];
        for &i in &win {
            for &j in &win {
                if i >= j {
                    continue;
                }
                for s1 in syms {
                    for s2 in syms {
                        let mut c: Vec<String> = b.chars().map(|c| c.to_string()).collect();
                        c[i] = s1.to_string();
                        c[j] = s2.to_string();
                        lines.push(c.concat());
                    }
                }
            }
        }
    }
    lines.sort();
    lines.dedup();
    let must_err = AtomicU64::new(0);
    let ok_count = AtomicU64::new(0);
    let err_count = AtomicU64::new(0);
    rep.par_for(lines.len(), 16, "C17 part 1", |i| {
        let line = &lines[i];
        rep.eval(1);
        let one = [line.as_str()];
        for align in [false, true] {
            // With alignment on, a time stamp is a request for that many frames: only times inside the
            // operating envelope of C09 (finite, below 10 minutes) are meaningful there; a huge or infinite
            // time is a resource request, not bad text (DESIGN §8).
            if align {
                let mut it = line.splitn(3, ' ');
                let (a, b) = (it.next(), it.next());
                let too_big = |t: Option<&str>| t.and_then(|x| x.parse::<f64>().ok()).map(|x| !(x.abs() < 6.0e9)).unwrap_or(false);
                if b.is_some() && (too_big(a) || too_big(b)) {
                    continue;
                }
            }
            let mut e = tiny.clone();
            e.condition.set_phoneme_alignment_flag(align);
            let r = catch(|| e.generator(&one[..]).map(|g| if i % 8 == 0 { g.generate_all().len() } else { 0 }));
            let rp = json!({"line": line, "alignment": align});
            rep.outcome(match &r {
                Ok(Ok(n)) => 2 + *n as u64,
                Ok(Err(e)) => fnv(format!("{:?}", std::mem::discriminant(e)).as_bytes()),
                Err(_) => 1,
            });
            match r {
                Err(p) => {
                    rep.violation(format!("panic@{}", site_of(&p)), format!("label line makes the engine panic: {}", p), rp);
                    return;
                }
                Ok(Ok(_)) => {
                    ok_count.fetch_add(1, Ordering::Relaxed);
                    if let Some(why) = certainly_ill_formed(line) {
                        rep.violation("ill-formed-accepted", format!("ill-formed line accepted ({})", why), rp);
                        return;
                    }
                }
                Ok(Err(_)) => {
                    err_count.fetch_add(1, Ordering::Relaxed);
                }
            }
        }
        if certainly_ill_formed(line).is_some() {
            must_err.fetch_add(1, Ordering::Relaxed);
        }
        // every string form must treat the line the same way (accept/reject and number of frames)
        let as_slice = catch(|| tiny.generator(&one[..]).map(|g| g.verif_parameters().1.len()).map_err(|_| ()));
        let as_vec = catch(|| tiny.generator(vec![line.clone()]).map(|g| g.verif_parameters().1.len()).map_err(|_| ()));
        let arr: [String; 1] = [line.clone()];
        let as_arr = catch(|| tiny.generator(&arr).map(|g| g.verif_parameters().1.len()).map_err(|_| ()));
        rep.cmp(2);
        if let (Ok(a), Ok(b), Ok(c)) = (&as_slice, &as_vec, &as_arr) {
            if a != b || a != c {
                rep.violation("forms-disagree-on-bad-text", format!("the input forms treat the same line differently: &[&str] {:?}, Vec<String> {:?}, &[String; 1] {:?}", a, b, c), json!({"line": line}));
            }
        }
    });
    // the uncorrupted bases must be accepted
    for b in bases.iter().take(3) {
        rep.eval(1);
        if synth(&tiny, &[b.clone()]).is_err() {
            rep.violation("base-rejected", "uncorrupted base line rejected", json!({"line": b}));
        }
    }
    rep.distinct_many(lines.iter().map(|l| fnv(l.as_bytes())));
    rep.note("bounds", json!({"form_cases": form_cases.load(Ordering::Relaxed), "corrupted_lines": lines.len(), "long_multibyte_bad_lines": long_bad, "fault_alphabet": alphabet.len(), "certainly_ill_formed": must_err.load(Ordering::Relaxed), "accepted(x2 alignment)": ok_count.load(Ordering::Relaxed), "rejected(x2 alignment)": err_count.load(Ordering::Relaxed)}));
    rep.sample(json!({"line": lines[lines.len() / 3]}));
    rep.sample(json!({"line": lines[lines.len() / 2]}));
    rep.sample_last(json!({"line": lines.last()}));
    rep.guard(must_err.load(Ordering::Relaxed) > 100, "few certainly ill-formed lines");
    rep.guard(ok_count.load(Ordering::Relaxed) > 0 && err_count.load(Ordering::Relaxed) > 0, "faults never accepted or never rejected");
    rep.finish()
}
