//! C14 – The postfilter sharpens formants and preserves energy.
//! SCOPE: the C06 cepstrum lattice × beta × alpha; measured on the second pulse of a 2-frame run
//! (stationary, post-filtered coefficients) against the beta = 0 run.

use super::c06::{patterns, pulse_frames, shape_max};
use crate::common::*;
use crate::oracle::dsp::*;
use serde_json::json;
use std::sync::Mutex;

pub fn run(tier: Tier) -> i32 {
    let rep = Report::new("C14", tier, "model_checking");
    let nfreq = tier.pick(33usize, 129usize);
    let lens: &[usize] = tier.pick(&[2, 3, 4, 5, 10, 25], &[2, 3, 4, 5, 6, 7, 8, 10, 15, 20, 25, 30, 35, 40]);
    let betas = [0.0, 0.1, 0.3, 0.5];
    let alphas = [0.0, 0.3, 0.6];
    rep.set_rule("SCOPE: cepstrum lattice of C06 (scaled so (1+beta) x shape <= 2 Np) x beta {0,.1,.3,.5} x alpha {0,.3,.6} x vector lengths, plus very quiet and very loud frames (c0 -20, -30, 8); plus tilt-dominated spectra (|c1| in {1.2,1.5,1.8}, |c2| in {.2,.4}, all sign pairs) for which the emphasis can lower the energy; second pulse of a stationary 2-frame run through the real Vocoder; oracle: log|H_beta|-log|H_0|-beta*sum_{m>=2} c_m cos(m w~) constant over frequency within 0.01 Np, impulse-response energy within 1%, beta=0 and length 2 bit-identical to no postfilter; plus a 400 Hz pulse train equal to the superposition of the pulse response measured at 20 Hz; plus unvoiced frames: the noise-excited output equals the noise convolved with the pulse response measured on voiced frames; plus histories: the last frame after a linear glide between two cepstra over 8, 300 or 2500 (thorough: 12000) frames obeys the same two laws, so do stationary frames after a first frame that differs from them in exactly one coefficient k (every k for lengths 3 and 6; 0,1,2,3,middle,last for 25), and so do stationary frames after a first frame that differs from them only in the sign of one coefficient and one low mantissa bit (0..12) of a neighbour one or two places on; distinct = (length, alpha, beta, cepstrum); non-trivial = beta>0 and length>2");
    rep.assume("lattice cepstra only; energy measured on the truncated pulse response (tail < 1e-7 of peak)");
    let mut cases: Vec<(usize, f64, f64, Vec<f64>)> = Vec::new();
    for &len in lens {
        for &alpha in &alphas {
            for &scale in &[0.5, 1.3] {
                for p in patterns(len) {
                    cases.push((len, alpha, scale, p));
                }
            }
        }
    }
    // tilt-dominated spectra: a large first coefficient with a second one of either sign – for some of these the
    // emphasis *lowers* the energy, so the renormalisation has to raise the gain (the lattice above only has cases
    // where it lowers it). scale 0 = take the vector as it is.
    for &len in &[3usize, 6] {
        for &alpha in &alphas {
            for &c1 in &[1.2, 1.5, 1.8] {
                for &c2 in &[0.2, 0.4] {
                    for (s1, s2) in [(1.0, 1.0), (1.0, -1.0), (-1.0, 1.0), (-1.0, -1.0)] {
                        let mut p = vec![0.0; len];
                        p[1] = s1 * c1;
                        p[2] = s2 * c2;
                        if len > 3 {
                            p[3] = 0.03;
                            p[4] = -0.02;
                            p[5] = 0.01;
                        }
                        cases.push((len, alpha, 0.0, p));
                    }
                }
            }
        }
    }
    // the energy law is relative: it holds just as well for very quiet and very loud frames (c0 = -20, -30, +8)
    let ncases_before_levels = cases.len();
    for &len in &[3usize, 6] {
        for &alpha in &[0.0, 0.42] {
            for p in patterns(len).into_iter().step_by(3) {
                cases.push((len, alpha, 1.0, p));
            }
        }
    }
    let worst = Mutex::new((0.0f64, 0.0f64));
    let grid = freq_grid(nfreq);
    let nontriv = std::sync::atomic::AtomicU64::new(0);
    rep.par_for(cases.len(), 2, "C14 part 1", |i| {
        let (len, alpha, scale, pat) = &cases[i];
        let mut c = pat.clone();
        if *scale != 0.0 {
            let mx = shape_max(&c, *alpha);
            for m in 1..*len {
                c[m] *= scale / mx;
            }
        }
        c[0] = if i >= ncases_before_levels { [-20.0, -30.0, 8.0][i % 3] } else { 0.3 };
        let base = match pulse_frames(*len, *alpha, 0.0, &c, 2, 2_000_000) {
            Ok(b) => b,
            Err(p) => {
                rep.violation(format!("panic@{}", site_of(&p)), p, json!({"vector_length": len, "alpha": alpha, "beta": 0.0, "cepstrum": c}));
                return;
            }
        };
        for &beta in &betas {
            rep.eval(1);
            let rp = json!({"vector_length": len, "alpha": alpha, "beta": beta, "cepstrum": c, "f0_hz": 20, "measure": "second frame"});
            // same rate as the base run so the comparison is sample-aligned
            let r = catch(|| {
                let rate = base.1;
                let t0 = rate / 20;
                let mut v = jbonsai::vocoder::Vocoder::new(*len, 0, 0, false, rate, *alpha, beta, 1.0, t0);
                let mut out = Vec::new();
                for _ in 0..2 {
                    let mut buf = vec![0.0; t0];
                    v.synthesize(20f64.ln(), &c, &[], &mut buf);
                    out.push(buf);
                }
                let s = (t0 as f64).sqrt();
                out.iter().map(|b| b[..t0 - 2].iter().map(|x| x / s).collect::<Vec<f64>>()).collect::<Vec<_>>()
            });
            let fr = match r {
                Ok(f) => f,
                Err(p) => {
                    rep.violation(format!("panic@{}", site_of(&p)), p, rp);
                    continue;
                }
            };
            let h0 = &base.0[1];
            let hb = &fr[1];
            rep.outcome(hash_f64s(&hb[..hb.len().min(64)]));
            if hb.iter().any(|x| !x.is_finite()) {
                rep.violation("non-finite", "post-filtered pulse response is not finite", rp);
                continue;
            }
            if beta == 0.0 || *len <= 2 {
                rep.cmp(1);
                if !bits_eq(h0, hb) || !bits_eq(&base.0[0], &fr[0]) {
                    rep.violation("identity", format!("beta {} length {} must be bit-identical to no postfilter", beta, len), rp);
                }
                continue;
            }
            nontriv.fetch_add(1, std::sync::atomic::Ordering::Relaxed);
            rep.distinct(hash_f64s(&c) ^ beta.to_bits() ^ (alpha.to_bits() >> 3) ^ *len as u64);
            let tail = hb[hb.len() - hb.len() / 20..].iter().fold(0.0f64, |a, b| a.max(b.abs())) / hb.iter().fold(0.0f64, |a, b| a.max(b.abs()));
            if tail > 1e-5 {
                rep.guard(false, &format!("tail {:e} too large to measure", tail));
                continue;
            }
            // shape law
            let mut dmin = f64::INFINITY;
            let mut dmax = f64::NEG_INFINITY;
            for w in &grid {
                let wt = warp(*w, *alpha);
                let sharpen: f64 = beta * (2..*len).map(|m| c[m] * (m as f64 * wt).cos()).sum::<f64>();
                let d = logmag(hb, *w) - logmag(h0, *w) - sharpen;
                rep.cmp(1);
                dmin = dmin.min(d);
                dmax = dmax.max(d);
            }
            let spread = dmax - dmin;
            let e0: f64 = h0.iter().map(|x| x * x).sum();
            let eb: f64 = hb.iter().map(|x| x * x).sum();
            let erel = (eb / e0 - 1.0).abs();
            {
                let mut w = worst.lock().unwrap();
                w.0 = w.0.max(spread);
                w.1 = w.1.max(erel);
            }
            if !(spread <= 0.02) {
                rep.violation("shape", format!("orders >= 2 are not scaled by (1+beta) / order 1 not preserved: residual spread {:.4} Np (len {}, alpha {}, beta {})", spread, len, alpha, beta), rp.clone());
            }
            if !(erel <= 0.01) {
                rep.violation("energy", format!("impulse-response energy changes by {:.2}% with beta {} (len {}, alpha {})", erel * 100.0, beta, len, alpha), rp);
            }
        }
    });
    // histories: a spectrum that glides slowly from A to B over N frames and then stays at B. The postfilter works frame
    // by frame, so the last frame must obey the same laws as a fresh vocoder given B - whatever N is (anything that
    // remembers earlier frames shows up only for long, slow glides)
    let mut glides: Vec<(usize, f64, f64, usize, Option<usize>)> = Vec::new();
    for &len in &[3usize, 6, 25] {
        for &alpha in &[0.0, 0.42] {
            for &beta in &[0.1, 0.4] {
                for &n in tier.pick(&[8usize, 300, 2500][..], &[8usize, 300, 2500, 12000][..]) {
                    glides.push((len, alpha, beta, n, None));
                }
                // single-coefficient steps: a first frame that differs from the following stationary frames in exactly
                // one coefficient k (every k for short vectors) - a memo keyed on part of the vector hides here
                let ks: Vec<usize> = if len <= 6 { (0..len).collect() } else { vec![0, 1, 2, 3, len / 2, len - 1] };
                for k in ks {
                    glides.push((len, alpha, beta, 1, Some(k)));
                }
            }
        }
    }
    let glide_worst = Mutex::new(0.0f64);
    rep.par_for(glides.len(), 1, "C14 glides", |gi| {
        let (len, alpha, beta, n, step) = glides[gi];
        let pats = patterns(len);
        let mk = |pi: usize, scale: f64, c0: f64| -> Vec<f64> {
            let mut c = pats[pi % pats.len()].clone();
            let mx = shape_max(&c, alpha);
            for m in 1..len {
                c[m] *= scale / mx;
            }
            c[0] = c0;
            c
        };
        let b = mk(pats.len() / 2 + 1, 1.2, -0.2);
        let a = match step {
            None => mk(1, 0.6, 0.3),
            Some(k) => {
                let mut a = b.clone();
                a[k] = 0.3 - 0.5 * b[k];
                a
            }
        };
        let rate = 16000usize;
        let t0 = rate / 20;
        let run = |bt: f64| -> Result<Vec<f64>, String> {
            let (a, b) = (a.clone(), b.clone());
            catch(move || {
                let mut v = jbonsai::vocoder::Vocoder::new(len, 0, 0, false, rate, alpha, bt, 1.0, t0);
                let mut buf = vec![0.0; t0];
                for f in 0..n + 3 {
                    let t = (f as f64 / n as f64).min(1.0);
                    let c: Vec<f64> = a.iter().zip(&b).map(|(x, y)| x + (y - x) * t).collect();
                    v.synthesize(20f64.ln(), &c, &[], &mut buf);
                }
                let s = (t0 as f64).sqrt();
                buf[..t0 - 2].iter().map(|x| x / s).collect::<Vec<f64>>()
            })
        };
        rep.eval(1);
        let rp = json!({"vector_length": len, "alpha": alpha, "beta": beta, "glide_frames": n, "single_coefficient_step": step, "from": a, "to": b, "measure": "last of three frames at the end point"});
        let (h0, hb) = match (run(0.0), run(beta)) {
            (Ok(x), Ok(y)) => (x, y),
            (Err(p), _) | (_, Err(p)) => {
                rep.violation(format!("panic@{}", site_of(&p)), p, rp);
                return;
            }
        };
        let tail = hb[hb.len() - hb.len() / 20..].iter().fold(0.0f64, |x, y| x.max(y.abs())) / hb.iter().fold(0.0f64, |x, y| x.max(y.abs()));
        if !(tail <= 1e-5) {
            rep.guard(false, &format!("glide case: tail {:e} too large to measure", tail));
            return;
        }
        let e0: f64 = h0.iter().map(|x| x * x).sum();
        let eb: f64 = hb.iter().map(|x| x * x).sum();
        let erel = (eb / e0 - 1.0).abs();
        let mut dmin = f64::INFINITY;
        let mut dmax = f64::NEG_INFINITY;
        for w in &grid {
            let wt = warp(*w, alpha);
            let sharpen: f64 = beta * (2..len).map(|m| b[m] * (m as f64 * wt).cos()).sum::<f64>();
            let d = logmag(&hb, *w) - logmag(&h0, *w) - sharpen;
            rep.cmp(1);
            dmin = dmin.min(d);
            dmax = dmax.max(d);
        }
        {
            let mut w = glide_worst.lock().unwrap();
            *w = w.max(erel);
        }
        if !(dmax - dmin <= 0.02) {
            rep.violation("shape-after-glide", format!("after a glide of {} frames: orders >= 2 are not scaled by (1+beta): residual spread {:.4} Np (len {}, alpha {}, beta {})", n, dmax - dmin, len, alpha, beta), rp.clone());
        }
        if !(erel <= 0.01) {
            rep.violation("energy-after-glide", format!("after a glide of {} frames the impulse-response energy differs by {:.2}% between beta {} and beta 0 (len {}, alpha {})", n, erel * 100.0, beta, len, alpha), rp);
        }
    });
    // near-twin frames: a first frame that differs from the following (stationary) frames only at the level of bits - the sign
    // of one coefficient and one low mantissa bit of a neighbour (the pairs of changes that cancel in xor/rotate-style
    // fingerprints) - must not be taken for the same frame: the stationary frames obey the energy law as if they came first
    {
        let mut twins: Vec<(usize, f64, usize, usize, u32)> = Vec::new();
        for &len in &[3usize, 6, 25] {
            for (ai, &alpha) in [0.0, 0.42].iter().enumerate() {
                for i in 0..len - 1 {
                    for dist in 1..=2usize {
                        if i + dist >= len {
                            continue;
                        }
                        for bit in 0..=12u32 {
                            // a stride keeps the quick tier small: every (position, bit) pair occurs for one of the two alphas
                            if tier == Tier::Quick && (i + bit as usize + dist) % 2 != ai {
                                continue;
                            }
                            twins.push((len, alpha, i, i + dist, bit));
                        }
                    }
                }
            }
        }
        let twin_worst = Mutex::new(0.0f64);
        rep.par_for(twins.len(), 8, "C14 near-twin frames", |ti| {
            let (len, alpha, i, j, bit) = twins[ti];
            let beta = 0.3;
            // every coefficient of B is sizeable (a decaying alternating series scaled to 1.2 Np), so that negating any one of
            // them changes the energy correction noticeably
            let mut b: Vec<f64> = (0..len).map(|m| if m == 0 { 0.0 } else { 0.85f64.powi(m as i32) * if (m + i) % 3 == 0 { -1.0 } else { 1.0 } }).collect();
            let mx = shape_max(&b, alpha);
            for m in 1..len {
                b[m] *= 1.2 / mx;
            }
            b[0] = 0.25;
            let mut a = b.clone();
            a[i] = -a[i];
            a[j] = f64::from_bits(a[j].to_bits() ^ (1u64 << bit));
            let rate = 16000usize;
            let t0 = rate / 20;
            let run = |bt: f64, first: &Vec<f64>| -> Result<Vec<f64>, String> {
                let (a, b) = (first.clone(), b.clone());
                catch(move || {
                    let mut v = jbonsai::vocoder::Vocoder::new(len, 0, 0, false, rate, alpha, bt, 1.0, t0);
                    let mut buf = vec![0.0; t0];
                    v.synthesize(20f64.ln(), &a, &[], &mut buf);
                    for _ in 0..3 {
                        v.synthesize(20f64.ln(), &b, &[], &mut buf);
                    }
                    let s = (t0 as f64).sqrt();
                    buf[..t0 - 2].iter().map(|x| x / s).collect::<Vec<f64>>()
                })
            };
            rep.eval(1);
            rep.cmp(1);
            let rp = json!({"vector_length": len, "alpha": alpha, "beta": beta, "frames": "A, B, B, B", "B": b, "A": format!("B with coefficient {} negated and mantissa bit {} of coefficient {} flipped", i, bit, j), "measure": "last frame"});
            let (h0, hb) = match (run(0.0, &a), run(beta, &a)) {
                (Ok(x), Ok(y)) => (x, y),
                (Err(p), _) | (_, Err(p)) => {
                    rep.violation(format!("panic@{}", site_of(&p)), p, rp);
                    return;
                }
            };
            let e0: f64 = h0.iter().map(|x| x * x).sum();
            let eb: f64 = hb.iter().map(|x| x * x).sum();
            let erel = (eb / e0 - 1.0).abs();
            {
                let mut w = twin_worst.lock().unwrap();
                *w = w.max(erel);
            }
            if !(erel <= 0.01) {
                rep.violation("energy-after-near-twin", format!("after a first frame that differs from the stationary one only in a sign and one low bit, the impulse-response energy differs by {:.2}% between beta {} and beta 0 (len {}, alpha {})", erel * 100.0, beta, len, alpha), rp);
            }
        });
        rep.note("near_twin_frames", json!({"cases": twins.len(), "worst_energy_rel": *twin_worst.lock().unwrap()}));
    }
    // the filter is the same whatever the pitch: a pulse train at 400 Hz (period 40 samples, 20 pulses per frame) must be the
    // superposition of the very pulse response measured at 20 Hz with the same beta (narrow low formants included, whose
    // response rings over many periods)
    {
        let mut n_train = 0u64;
        for &len in &[3usize, 6, 12, 25] {
            for &alpha in &[0.0, 0.42] {
                for &beta in &[0.0, 0.3, 0.5] {
                    // a strong low formant: large first coefficients, alternating tail
                    let mut c: Vec<f64> = (0..len).map(|m| if m == 0 { 0.2 } else { 0.9f64.powi(m as i32) * if m % 4 == 3 { -0.5 } else { 1.0 } }).collect();
                    let mx = shape_max(&c, alpha);
                    for m in 1..len {
                        c[m] *= 1.3 / mx;
                    }
                    let rate = 16000usize;
                    let t0 = rate / 20;
                    let period = 40usize;
                    let cc = c.clone();
                    let r = catch(move || {
                        let run = |lf0: f64| -> Vec<Vec<f64>> {
                            let mut v = jbonsai::vocoder::Vocoder::new(cc.len(), 0, 0, false, rate, alpha, beta, 1.0, t0);
                            (0..4)
                                .map(|_| {
                                    let mut buf = vec![0.0; t0];
                                    v.synthesize(lf0, &cc, &[], &mut buf);
                                    buf
                                })
                                .collect()
                        };
                        (run(20f64.ln()), run((rate as f64 / period as f64).ln()))
                    });
                    rep.eval(1);
                    n_train += 1;
                    let rp = json!({"vector_length": len, "alpha": alpha, "beta": beta, "cepstrum": c, "measure": "fourth frame of a 400 Hz pulse train vs the superposed 20 Hz pulse response"});
                    let (single, train) = match r {
                        Ok(x) => x,
                        Err(p) => {
                            rep.violation(format!("panic@{}", site_of(&p)), p, rp);
                            continue;
                        }
                    };
                    let h: Vec<f64> = single[2].iter().map(|x| x / (t0 as f64).sqrt()).collect();
                    let peak = h.iter().fold(0.0f64, |a, b| a.max(b.abs()));
                    let tail = h[t0 - 40..].iter().fold(0.0f64, |a, b| a.max(b.abs())) / peak.max(1e-300);
                    if !(tail <= 1e-7) {
                        rep.guard(false, &format!("pulse-train case len {} alpha {} beta {}: measured response too long (tail {:e})", len, alpha, beta, tail));
                        continue;
                    }
                    let y = &train[3];
                    // pulses every `period` samples; the phase (where in the frame the first one falls) is whatever fits best
                    let amp = (period as f64).sqrt();
                    let mut best = (f64::INFINITY, 0usize);
                    for phase in 0..period {
                        let mut err = 0.0f64;
                        let mut ymax = 0.0f64;
                        for n in 0..t0 {
                            // pulses at phase + k*period for all k (also before the frame: k negative)
                            let mut want = 0.0;
                            let mut t = n as isize - phase as isize;
                            // t mod period steps back through earlier pulses
                            t = t.rem_euclid(period as isize);
                            let mut lag = t as usize;
                            while lag < t0 {
                                want += amp * h[lag];
                                lag += period;
                            }
                            err = err.max((y[n] - want).abs());
                            ymax = ymax.max(y[n].abs());
                        }
                        let rel = err / ymax.max(1e-300);
                        if rel < best.0 {
                            best = (rel, phase);
                        }
                    }
                    rep.cmp(t0 as u64);
                    if !(best.0 <= 1e-6) {
                        rep.violation("pulse-train", format!("a 400 Hz pulse train is not the superposition of the pulse response measured at 20 Hz (beta {}, len {}, alpha {}): relative deviation {:.3e} at the best phase {}", beta, len, alpha, best.0, best.1), rp);
                    }
                }
            }
        }
        rep.note("pulse_train_cases", json!(n_train));
    }
    // the postfilter acts on the spectrum, whatever excites the filter: on unvoiced (noise-excited) frames the output must
    // be the noise convolved with the very pulse response measured on voiced frames with the same beta
    let mut noise_cases = 0u64;
    for &len in &[3usize, 6, 25] {
        for &alpha in &[0.0, 0.42] {
            for &beta in &[0.0, 0.3] {
                let pats = patterns(len);
                let mut c = pats[(len + 3) % pats.len()].clone();
                let mx = shape_max(&c, alpha);
                for m in 1..len {
                    c[m] *= 1.0 / mx;
                }
                c[0] = 0.2;
                let rate = 16000usize;
                let t0 = rate / 20;
                let cc = c.clone();
                let r = catch(move || {
                    let run = |lf0: f64, spec: &[f64], bt: f64| -> Vec<Vec<f64>> {
                        let mut v = jbonsai::vocoder::Vocoder::new(spec.len(), 0, 0, false, rate, alpha, bt, 1.0, t0);
                        (0..3)
                            .map(|_| {
                                let mut buf = vec![0.0; t0];
                                v.synthesize(lf0, spec, &[], &mut buf);
                                buf
                            })
                            .collect()
                    };
                    let voiced = run(20f64.ln(), &cc, beta);
                    let unvoiced = run(-1e10, &cc, beta);
                    let noise = run(-1e10, &vec![0.0; cc.len()], 0.0);
                    (voiced, unvoiced, noise)
                });
                rep.eval(1);
                noise_cases += 1;
                let rp = json!({"vector_length": len, "alpha": alpha, "beta": beta, "cepstrum": c, "measure": "third unvoiced frame vs noise convolved with the voiced pulse response"});
                match r {
                    Err(p) => rep.violation(format!("panic@{}", site_of(&p)), p, rp),
                    Ok((voiced, unvoiced, noise)) => {
                        let s = (t0 as f64).sqrt();
                        let h: Vec<f64> = voiced[1][..t0 - 2].iter().map(|x| x / s).collect();
                        let e: Vec<f64> = noise.iter().flatten().cloned().collect();
                        let y = &unvoiced[2];
                        let (mut num, mut den) = (0.0f64, 0.0f64);
                        for n in 0..t0 {
                            let g = 2 * t0 + n;
                            let pred: f64 = h.iter().enumerate().map(|(k, hk)| hk * e[g - k]).sum();
                            num += (y[n] - pred) * (y[n] - pred);
                            den += pred * pred;
                        }
                        rep.cmp(1);
                        let rel = (num / den.max(1e-300)).sqrt();
                        if !(rel <= 1e-3) {
                            rep.violation("unvoiced-filter", format!("unvoiced frames are not filtered with the spectrum measured on voiced frames (beta {}, len {}, alpha {}): relative deviation {:.4}", beta, len, alpha, rel), rp);
                        }
                    }
                }
            }
        }
    }
    {
        let mut cfgs = Vec::new();
        for (len, alpha, beta) in [(3usize, 0.0f64, 0.3f64), (10, 0.42, 0.5), (25, 0.55, 0.2), (40, 0.3, 0.8)] {
            let pa: Vec<f64> = (0..len).map(|m| if m == 0 { 0.3 } else { 0.8 / (m as f64 + 1.0) * if m % 2 == 0 { -1.0 } else { 1.0 } }).collect();
            let pb: Vec<f64> = (0..len).map(|m| if m == 0 { -0.2 } else { 0.5 / (m as f64 + 1.0) }).collect();
            cfgs.push((len, 0usize, false, alpha, beta, pa, pb));
        }
        let n = crate::props::c06::clone_midstream(&rep, &cfgs);
        rep.note("vocoder_clone_cases", json!(n));
    }
    rep.note("noise_excited_cases", json!(noise_cases));
    rep.note("glides", json!({"cases": glides.len(), "single_coefficient_steps": glides.iter().filter(|g| g.4.is_some()).count(), "frames": tier.pick(&[8usize, 300, 2500][..], &[8usize, 300, 2500, 12000][..]), "worst_energy_rel": *glide_worst.lock().unwrap()}));
    let w = *worst.lock().unwrap();
    rep.nontrivial.store(nontriv.load(std::sync::atomic::Ordering::Relaxed), std::sync::atomic::Ordering::Relaxed);
    rep.note("bounds", json!({"lengths": lens, "alphas": alphas, "betas": betas, "scales_np": [0.5, 1.3], "frequencies": nfreq, "cepstra": cases.len(), "worst_shape_spread_np": w.0, "worst_energy_rel": w.1}));
    rep.sample(json!({"vector_length": 3, "alpha": 0.3, "beta": 0.5, "pattern": [0, 0, 1]}));
    rep.sample_last(json!({"vector_length": cases.last().unwrap().0, "alpha": cases.last().unwrap().1, "pattern": cases.last().unwrap().3}));
    rep.guard(nontriv.load(std::sync::atomic::Ordering::Relaxed) > 100, "too few beta>0 cases");
    rep.finish()
}
