//! C18 – A malformed voice file is an error, not a crash.
//! Fault enumeration: every single fault of each class (and pairs over a reduced set) applied to valid
//! voice files, each loaded by the real loader in an isolated child process under address-space and
//! wall-clock limits; panic sites come from the panic hook.

use crate::common::*;
use crate::gen::cond::v0_bytes;
use crate::gen::voice::GenCfg;
use serde_json::json;
use std::collections::BTreeMap;
use std::io::{BufRead, BufReader, Write};
use std::process::{Command, Stdio};
use std::sync::atomic::{AtomicU64, Ordering};
use std::sync::Mutex;

pub fn bases() -> Vec<(String, Vec<u8>, bool)> {
    let mut v: Vec<(String, Vec<u8>, bool)> = Vec::new();
    for cfg in [
        GenCfg { ns: 3, gv: true, tree: 1, nstate: 2, quoted: true, ..GenCfg::default() },
        GenCfg { ns: 2, gv: false, tree: 0, nstate: 1, quoted: false, ..GenCfg::default() },
        GenCfg { ns: 3, gv: false, tree: 1, nstate: 1, quoted: false, stage: 2, order: 3, wset: 1, ..GenCfg::default() },
        GenCfg { ns: 2, gv: true, tree: 1, nstate: 2, quoted: true, wset: 3, ..GenCfg::default() },
        GenCfg { ns: 3, gv: true, tree: 0, nstate: 3, quoted: true, wset: 0, ..GenCfg::default() },
        GenCfg { ns: 2, gv: true, tree: 0, nstate: 1, quoted: false, order: 2, wset: 1, ..GenCfg::default() },
    ] {
        v.push((cfg.describe(), cfg.bytes(), true));
    }
    v.push(("V0".into(), v0_bytes().clone(), false));
    v
}

#[derive(Clone, Debug)]
pub enum HeaderEdit {
    Replace(usize, String),
    Delete(usize),
    Dup(usize),
}

fn data_pos(orig: &[u8]) -> usize {
    orig.windows(7).position(|w| w == b"[DATA]\n").expect("[DATA]") + 7
}
fn apply_header(orig: &[u8], edits: &[HeaderEdit]) -> Vec<u8> {
    let dp = data_pos(orig);
    let header = String::from_utf8(orig[..dp].to_vec()).unwrap();
    let mut lines: Vec<Option<Vec<String>>> = header.lines().map(|l| Some(vec![l.to_string()])).collect();
    for e in edits {
        match e {
            HeaderEdit::Replace(i, s) => lines[*i] = Some(vec![s.clone()]),
            HeaderEdit::Delete(i) => lines[*i] = None,
            HeaderEdit::Dup(i) => {
                if let Some(v) = lines[*i].as_mut() {
                    let l = v[0].clone();
                    v.push(l);
                }
            }
        }
    }
    let mut out = lines.into_iter().flatten().flatten().collect::<Vec<_>>().join("\n").into_bytes();
    out.push(b'\n');
    out.extend(&orig[dp..]);
    out
}

/// Header-line faults: (name, edit)
pub fn header_faults(orig: &[u8], reduced: bool) -> Vec<(String, HeaderEdit)> {
    let dp = data_pos(orig);
    let header = String::from_utf8(orig[..dp].to_vec()).unwrap();
    let lines: Vec<&str> = header.lines().collect();
    let mut out = Vec::new();
    for (li, line) in lines.iter().enumerate() {
        let b = line.as_bytes();
        let mut i = 0;
        while i < b.len() {
            if b[i].is_ascii_digit() {
                let s = i;
                while i < b.len() && b[i].is_ascii_digit() {
                    i += 1;
                }
                let val: u64 = line[s..i].parse().unwrap_or(0);
                let reps: Vec<String> = if reduced {
                    vec!["0".into(), (val + 1).to_string(), "99999999999".into(), "99999999999999999999999999".into()]
                } else {
                    vec!["0".into(), "1".into(), (val + 1).to_string(), val.saturating_sub(1).to_string(), "99999999999".into(), "18446744073709551615".into(), "18446744073709551616".into(), "99999999999999999999999999".into(), "-5".into(), "abc".into(), "".into(), "4294967296".into(), "9223372036854775807".into(),
                        // digits that are numeric for Unicode but not ASCII: full-width after ASCII digits, alone, a superscript
                        format!("{}\u{ff10}", val), "\u{ff14}\u{ff12}".into(), format!("{}\u{b2}", val), format!("{}\u{0663}", val)]
                };
                for rep in reps {
                    out.push((format!("num line{} {}->{}", li, &line[s..i], rep), HeaderEdit::Replace(li, format!("{}{}{}", &line[..s], rep, &line[i..]))));
                }
            } else {
                i += 1;
            }
        }
        out.push((format!("del line{} ({})", li, line.split(':').next().unwrap_or("")), HeaderEdit::Delete(li)));
        if !reduced {
            out.push((format!("dup line{}", li), HeaderEdit::Dup(li)));
        }
        if let Some((k, r)) = line.split_once(':') {
            if let Some((a, bb)) = r.split_once('-') {
                if !r.contains(',') {
                    out.push((format!("invert line{}", li), HeaderEdit::Replace(li, format!("{}:{}-{}", k, bb, a))));
                }
            }
            if !reduced {
                // the key itself, reshaped: brackets swapped, doubled, missing, out of order, empty; and extra unknown lines
                // with such keys next to the intact line
                let (main, sub) = match (k.find('['), k.rfind(']')) {
                    (Some(a), Some(b)) if a < b => (&k[..a], &k[a + 1..b]),
                    _ => (k, "X"),
                };
                for nk in [
                    format!("{}]{}[", main, sub),
                    format!("{}]{}[{}", main, sub, sub),
                    format!("]{}[", sub),
                    format!("{}[{}", main, sub),
                    format!("{}]{}", main, sub),
                    format!("{}[[{}]]", main, sub),
                    format!("{}[]", main),
                    format!("{}][", main),
                    format!("[{}]", sub),
                    "[".to_string(),
                    "]".to_string(),
                    String::new(),
                ] {
                    out.push((format!("key line{} -> {:?}", li, nk), HeaderEdit::Replace(li, format!("{}:{}", nk, r))));
                }
                if li % 4 == 1 {
                    out.push((format!("extra line after line{} with key NOTE]old[new", li), HeaderEdit::Replace(li, format!("{}\nNOTE]old[new:1", line))));
                    out.push((format!("extra line after line{} with key ]x[", li), HeaderEdit::Replace(li, format!("{}\n]x[:0-0", line))));
                }
                out.push((format!("empty value line{}", li), HeaderEdit::Replace(li, format!("{}:", k))));
                out.push((format!("no colon line{}", li), HeaderEdit::Replace(li, k.to_string())));
                out.push((format!("text value line{}", li), HeaderEdit::Replace(li, format!("{}:abc,\"d-e\"", k))));
            }
        }
    }
    out
}
fn swap_faults(orig: &[u8]) -> Vec<(String, Vec<HeaderEdit>)> {
    let dp = data_pos(orig);
    let header = String::from_utf8(orig[..dp].to_vec()).unwrap();
    let lines: Vec<&str> = header.lines().collect();
    let mut out = Vec::new();
    let ranged: Vec<usize> = (0..lines.len()).filter(|i| lines[*i].split_once(':').map(|(_, r)| r.contains('-') && r.chars().next().map(|c| c.is_ascii_digit()).unwrap_or(false)).unwrap_or(false)).collect();
    for (x, &i) in ranged.iter().enumerate() {
        for &j in &ranged[x + 1..] {
            let (ki, ri) = lines[i].split_once(':').unwrap();
            let (kj, rj) = lines[j].split_once(':').unwrap();
            out.push((format!("swap ranges line{}<->line{}", i, j), vec![HeaderEdit::Replace(i, format!("{}:{}", ki, rj)), HeaderEdit::Replace(j, format!("{}:{}", kj, ri))]));
        }
    }
    out
}

fn truncations(orig: &[u8], dense: bool) -> Vec<usize> {
    let dp = data_pos(orig);
    let header = String::from_utf8(orig[..dp].to_vec()).unwrap();
    let mut bounds: Vec<usize> = vec![0, 1, dp - 1, dp, dp + 1, orig.len() - 1];
    for l in header.lines() {
        if let Some((_, r)) = l.split_once(':') {
            for part in r.split(',') {
                if let Some((a, b)) = part.split_once('-') {
                    if let (Ok(a), Ok(b)) = (a.parse::<usize>(), b.parse::<usize>()) {
                        for x in [a, a + 1, b, b + 1] {
                            bounds.push(dp + x);
                            if x > 0 {
                                bounds.push(dp + x - 1);
                            }
                        }
                    }
                }
            }
        }
    }
    // section headers
    for tag in ["[GLOBAL]", "[STREAM]", "[POSITION]", "[DATA]"] {
        if let Some(p) = header.find(tag) {
            bounds.extend([p, p + 1, p + tag.len(), p + tag.len() + 1]);
        }
    }
    if dense {
        bounds.extend(0..orig.len());
    } else {
        bounds.extend((0..orig.len()).step_by(orig.len() / 64 + 1));
    }
    bounds.retain(|c| *c < orig.len());
    bounds.sort();
    bounds.dedup();
    bounds
}

fn token_faults(orig: &[u8], dense: bool) -> Vec<(String, Vec<u8>)> {
    let dp = data_pos(orig);
    let mut out = Vec::new();
    let pats: Vec<(&str, &str)> = vec![
        ("QS ", "QX "), ("QS ", ""), ("{*}[2]", "{*}[9]"), ("{*}[2]", "{*}[-1]"), ("{*}[2]", "{*}[99999999999999999999]"), ("{*}[2]", "{*}[]"), ("{*}[3]", "{*}[2]"),
        ("_s2_1", "_s2_99999"), ("_s2_1", "_s2_0"), ("_s2_1", "_s2_99999999999999999999999"), ("_s2_1", "_s2_"), ("_s2_2", "_s2_1"),
        (" -1 ", " -7777 "), (" -1 ", " 0 "), (" -1 ", " 1 "), (" 0 ", " -1 "), ("C-", "Z-"), ("R-", "Z-"), ("Utt_", "Zzz_"), ("{\n", "\n"), ("}\n", "\n"), ("{ \"", "{ "), ("\" }", " }"), ("\",\"", "\"\""), ("\n\n", "\n"),
        ("1.0", "abc"), ("-0.5", "--0.5"), ("3 ", "99999999999999999999 "), ("3 ", "4 "), ("3 ", "0 "), ("1 1.0", "1"),
    ];
    for (pat, rep) in pats {
        let pb = pat.as_bytes();
        let mut at = dp;
        let mut cnt = 0;
        let mut positions = Vec::new();
        while at + pb.len() <= orig.len() {
            if &orig[at..at + pb.len()] == pb {
                positions.push(at);
                at += pb.len();
            } else {
                at += 1;
            }
        }
        // dense: every occurrence; otherwise first, last and one interior occurrence
        let chosen: Vec<usize> = if dense || positions.len() <= 3 { positions.clone() } else { vec![positions[0], positions[positions.len() / 2], positions[positions.len() - 1]] };
        for at in chosen {
            let mut b = orig[..at].to_vec();
            b.extend(rep.as_bytes());
            b.extend(&orig[at + pb.len()..]);
            out.push((format!("tok {:?}->{:?}@{} (length changes)", pat, rep, at), b));
            if rep.len() <= pat.len() {
                let mut b = orig.to_vec();
                let mut r = rep.as_bytes().to_vec();
                r.resize(pb.len(), b' ');
                b[at..at + pb.len()].copy_from_slice(&r);
                out.push((format!("tok {:?}->{:?}@{} (padded)", pat, rep, at), b));
            }
            cnt += 1;
            if !dense && cnt >= 3 {
                break;
            }
        }
    }
    out
}

/// Numbers inside the text blocks of the data section (window rows: width and coefficients; trees: state indices, node
/// ids, leaf numbers) replaced by special values, with [POSITION] rewritten so that the edited block is still found
/// whole - an overlong or absurd number must be an error (or harmless), not a panic or an unbounded allocation.
fn data_number_faults(orig: &[u8], dense: bool) -> Vec<(String, Vec<u8>)> {
    let parts = crate::gen::cond::split_blocks(orig);
    let order: Vec<usize> = (0..parts.blocks.len()).collect();
    let reps = ["0", "4000000000000000000", "1000000000000", "99999999999999999999", "-1"];
    let mut out = Vec::new();
    for (bi, (li, ri, bytes)) in parts.blocks.iter().enumerate() {
        let key = &parts.keys[*li];
        let is_win = key.contains("WIN");
        if !(is_win || key.contains("TREE")) {
            continue;
        }
        // the duration tree replaced by a ladder of 40 "diamonds" (both answers of a node lead, through one more question
        // each, to the same next node): acyclic, 121 nodes, but 2^40 root-to-leaf paths - anything that walks paths
        // instead of nodes never finishes
        if key.starts_with("DURATION_TREE") {
            let text = String::from_utf8_lossy(bytes).to_string();
            let qname = text.lines().find(|l| l.starts_with("QS ")).and_then(|l| l.split_whitespace().nth(1)).map(|x| x.to_string());
            let leaf = text.split_whitespace().find(|t| t.contains("_s2_")).map(|x| x.to_string());
            if let (Some(q), Some(leaf), Some(tree_at)) = (qname, leaf, text.find("{*}")) {
                let levels = 40;
                let mut t = text[..tree_at].to_string();
                t += "{*}[2]\n{\n";
                let id = |i: usize| if i == 0 { "0".to_string() } else { format!("-{}", 3 * i) };
                for i in 0..levels {
                    let next = if i + 1 == levels { leaf.clone() } else { id(i + 1) };
                    t += &format!(" {} {} -{} -{}\n", id(i), q, 3 * i + 1, 3 * i + 2);
                    t += &format!(" -{} {} {} {}\n", 3 * i + 1, q, next, next);
                    t += &format!(" -{} {} {} {}\n", 3 * i + 2, q, next, next);
                }
                t += "}\n";
                let mut p2 = crate::gen::cond::Parts { head: parts.head.clone(), keys: parts.keys.clone(), blocks: parts.blocks.clone() };
                p2.blocks[bi].2 = t.into_bytes();
                out.push((format!("tree block {} replaced by a ladder of {} diamonds", key, levels), crate::gen::cond::assemble(&p2, &order, false)));
            }
        }
        // trees: every brace block emptied (all node lines removed, braces kept), and reduced to its first node line
        if key.contains("TREE") {
            let mut at = 0usize;
            let mut k = 0usize;
            while let Some(open) = bytes[at..].windows(2).position(|w| w == b"{\n").map(|p| p + at) {
                let Some(close) = bytes[open..].windows(2).position(|w| w == b"}\n" || w == b"} ").map(|p| p + open).or_else(|| bytes[open..].iter().position(|c| *c == b'}').map(|p| p + open)) else { break };
                let inner = &bytes[open + 2..close];
                // the "QS name { patterns }" lines also use braces but on one line: only multi-line blocks are trees
                if !inner.is_empty() && !bytes[..open].ends_with(b"QS") {
                    for variant in 0..2 {
                        let keep: Vec<u8> = if variant == 0 { Vec::new() } else { inner.split(|c| *c == b'\n').next().map(|l| [l, b"\n"].concat()).unwrap_or_default() };
                        if variant == 1 && keep.len() >= inner.len() {
                            continue;
                        }
                        let mut nb = bytes[..open + 2].to_vec();
                        nb.extend(&keep);
                        nb.extend(&bytes[close..]);
                        let mut p2 = crate::gen::cond::Parts { head: parts.head.clone(), keys: parts.keys.clone(), blocks: parts.blocks.clone() };
                        p2.blocks[bi].2 = nb;
                        out.push((format!("tree block {}#{} tree {} {}", key, ri, k, if variant == 0 { "emptied (braces kept)" } else { "cut down to its first node line" }), crate::gen::cond::assemble(&p2, &order, false)));
                    }
                    k += 1;
                }
                at = close + 1;
                if !dense && k >= 3 {
                    break;
                }
            }
        }
        if !(is_win || dense) {
            continue;
        }
        let mut i = 0;
        let mut runs: Vec<(usize, usize)> = Vec::new();
        while i < bytes.len() {
            if bytes[i].is_ascii_digit() {
                let st = i;
                while i < bytes.len() && bytes[i].is_ascii_digit() {
                    i += 1;
                }
                runs.push((st, i));
            } else {
                i += 1;
            }
        }
        // trees of generated files: every number; windows: every number (the first one of a row is the width)
        for (st, en) in runs {
            for rep in reps {
                let mut nb = bytes[..st].to_vec();
                nb.extend(rep.as_bytes());
                nb.extend(&bytes[en..]);
                let mut p2 = crate::gen::cond::Parts { head: parts.head.clone(), keys: parts.keys.clone(), blocks: parts.blocks.clone() };
                p2.blocks[bi].2 = nb;
                out.push((format!("data number {}#{} bytes {}..{} {:?}->{}", key, ri, st, en, String::from_utf8_lossy(&bytes[st..en]), rep), crate::gen::cond::assemble(&p2, &order, false)));
            }
        }
    }
    out
}

/// Faults of unusual size or numeric content rather than of local shape: very long runs of empty lines inside each header
/// section (legal: empty lines are skipped), a very long list of GV-off patterns, and question patterns whose numeric
/// fields sit at the ends of the number ranges of the label format (255, 127, -128, "25?", "99?" …).
fn bulk_faults(orig: &[u8]) -> Vec<(String, Vec<u8>)> {
    let dp = data_pos(orig);
    let header = String::from_utf8_lossy(&orig[..dp]).to_string();
    let mut out = Vec::new();
    for sec in ["[GLOBAL]\n", "[STREAM]\n", "[POSITION]\n"] {
        if let Some(at) = header.find(sec) {
            for n in [3_000usize, 2_000_000] {
                let mut b = orig[..at + sec.len()].to_vec();
                b.extend(std::iter::repeat(b'\n').take(n));
                b.extend(&orig[at + sec.len()..]);
                out.push((format!("{} empty lines after {}", n, sec.trim()), b));
            }
        }
    }
    let lines: Vec<&str> = header.lines().collect();
    if let Some(gi) = lines.iter().position(|l| l.starts_with("GV_OFF_CONTEXT:")) {
        let many = format!("GV_OFF_CONTEXT:{}", vec!["\"*-sil+*\""; 200_000].join(","));
        out.push(("GV_OFF_CONTEXT with 200000 patterns".into(), apply_header(orig, &[HeaderEdit::Replace(gi, many)])));
        for pat in NUMERIC_PATTERNS {
            out.push((format!("GV_OFF_CONTEXT pattern {}", pat), apply_header(orig, &[HeaderEdit::Replace(gi, format!("GV_OFF_CONTEXT:\"{}\"", pat))])));
        }
    }
    // the first question of the first tree block asks one of the numeric patterns instead
    let parts = crate::gen::cond::split_blocks(orig);
    let order: Vec<usize> = (0..parts.blocks.len()).collect();
    if let Some((bi, _)) = parts.blocks.iter().enumerate().find(|(_, (li, _, _))| parts.keys[*li].contains("TREE")) {
        let text = String::from_utf8_lossy(&parts.blocks[bi].2).to_string();
        if let Some(line) = text.lines().find(|l| l.starts_with("QS ")) {
            if let (Some(open), Some(close)) = (line.find('{'), line.rfind('}')) {
                for pat in NUMERIC_PATTERNS {
                    let nl = format!("{}{{ \"{}\" }}{}", &line[..open], pat, &line[close + 1..]);
                    let mut p2 = crate::gen::cond::Parts { head: parts.head.clone(), keys: parts.keys.clone(), blocks: parts.blocks.clone() };
                    p2.blocks[bi].2 = text.replacen(line, &nl, 1).into_bytes();
                    out.push((format!("first question of {} asks {}", parts.keys[parts.blocks[bi].0], pat), crate::gen::cond::assemble(&p2, &order, false)));
                }
            }
        }
    }
    out
}
const NUMERIC_PATTERNS: [&str; 26] = [
    "*/A:127+*", "*/A:-128+*", "*/A:12?+*", "*/A:-12?+*", "*/A:-?+*", "*/A:99?+*", "*/A:128+*", "*/A:-129+*", "*+255+*", "*+25?+*", "*+99?+*", "*/F:255_*", "*/F:25?_*", "*/F:26?_*", "*/F:99?_*", "*/F:256_*",
    "*_255#*", "*_25?#*", "*/E:255_*", "*/E:25?_*", "*/K:255+*", "*/K:99?+*", "*-255", "*-25?", "*/F:99999999999999999999_*", "*/A:-0+*",
];

/// The full, deterministic fault list for one base file: (name, bytes). Built lazily by index.
pub struct FaultSet {
    pub orig: Vec<u8>,
    trunc: Vec<usize>,
    header: Vec<(String, HeaderEdit)>,
    swaps: Vec<(String, Vec<HeaderEdit>)>,
    tokens: Vec<(String, Vec<u8>)>,
    bytes: Vec<(usize, u8)>,
    pairs: Vec<(usize, usize)>,      // header x header (reduced), different lines
    pair_trunc: Vec<(usize, usize)>, // reduced header fault x truncation offset
    pair_tok: Vec<(usize, usize)>,   // reduced header fault x token fault
    header_red: Vec<(String, HeaderEdit)>,
}
impl FaultSet {
    pub fn new(orig: Vec<u8>, dense: bool, with_pairs: bool) -> Self {
        let dp = data_pos(&orig);
        let trunc = truncations(&orig, dense);
        let header = header_faults(&orig, false);
        let swaps = swap_faults(&orig);
        let mut tokens = token_faults(&orig, dense);
        tokens.extend(data_number_faults(&orig, dense));
        tokens.extend(bulk_faults(&orig));
        let mut bytes = Vec::new();
        // non-UTF-8 / NUL bytes in each header section
        for pos in [2usize, 10, dp / 4, dp / 2, 3 * dp / 4, dp - 10, dp - 2] {
            for r in [0xFFu8, 0u8, 0xC3] {
                bytes.push((pos.min(dp - 1), r));
            }
        }
        if dense {
            for pos in dp..orig.len() {
                let c = orig[pos];
                if c == b'\n' || (0x20..0x7f).contains(&c) {
                    for r in [0u8, 0xFF, b'"', b'{', b'}', b' ', b'9', b'-', b'\n'] {
                        if r != c {
                            bytes.push((pos, r));
                        }
                    }
                }
            }
            // binary PDF sections: first and last byte of each u32 count word region and a stride
            for pos in (dp..orig.len()).step_by(5) {
                let c = orig[pos];
                if !(c == b'\n' || (0x20..0x7f).contains(&c)) {
                    bytes.push((pos, 0xFF));
                    bytes.push((pos, 0x7F));
                }
            }
        } else {
            // V0: count words at the start of every PDF block
            let header_txt = String::from_utf8(orig[..dp].to_vec()).unwrap();
            for l in header_txt.lines() {
                if l.contains("PDF") {
                    if let Some((_, r)) = l.split_once(':') {
                        if let Some((a, _)) = r.split_once('-') {
                            if let Ok(a) = a.parse::<usize>() {
                                for off in 0..8 {
                                    for r in [0xFFu8, 0, 0x7F] {
                                        bytes.push((dp + a + off, r));
                                    }
                                }
                            }
                        }
                    }
                }
            }
        }
        let header_red = if with_pairs { header_faults(&orig, true) } else { vec![] };
        let line_of = |e: &HeaderEdit| match e {
            HeaderEdit::Replace(i, _) | HeaderEdit::Delete(i) | HeaderEdit::Dup(i) => *i,
        };
        let mut pairs = Vec::new();
        let mut pair_trunc = Vec::new();
        let mut pair_tok = Vec::new();
        if with_pairs {
            for i in 0..header_red.len() {
                for j in i + 1..header_red.len() {
                    if line_of(&header_red[i].1) != line_of(&header_red[j].1) {
                        pairs.push((i, j));
                    }
                }
                for cut in (0..orig.len() + 40).step_by(7) {
                    pair_trunc.push((i, cut));
                }
                for t in (0..tokens.len()).step_by(3) {
                    pair_tok.push((i, t));
                }
            }
        }
        FaultSet { orig, trunc, header, swaps, tokens, bytes, pairs, pair_trunc, pair_tok, header_red }
    }
    pub fn singles(&self) -> usize {
        self.trunc.len() + self.header.len() + self.swaps.len() + self.tokens.len() + self.bytes.len()
    }
    pub fn len(&self) -> usize {
        self.singles() + self.pairs.len() + self.pair_trunc.len() + self.pair_tok.len()
    }
    pub fn get(&self, mut i: usize) -> (String, Vec<u8>) {
        if i < self.trunc.len() {
            return (format!("truncate@{}", self.trunc[i]), self.orig[..self.trunc[i]].to_vec());
        }
        i -= self.trunc.len();
        if i < self.header.len() {
            return (self.header[i].0.clone(), apply_header(&self.orig, &[self.header[i].1.clone()]));
        }
        i -= self.header.len();
        if i < self.swaps.len() {
            return (self.swaps[i].0.clone(), apply_header(&self.orig, &self.swaps[i].1));
        }
        i -= self.swaps.len();
        if i < self.tokens.len() {
            return self.tokens[i].clone();
        }
        i -= self.tokens.len();
        if i < self.bytes.len() {
            let (pos, r) = self.bytes[i];
            let mut b = self.orig.clone();
            b[pos] = r;
            return (format!("byte@{}={:#04x}", pos, r), b);
        }
        i -= self.bytes.len();
        if i < self.pairs.len() {
            let (a, b) = self.pairs[i];
            return (format!("[{}] + [{}]", self.header_red[a].0, self.header_red[b].0), apply_header(&self.orig, &[self.header_red[a].1.clone(), self.header_red[b].1.clone()]));
        }
        i -= self.pairs.len();
        if i < self.pair_trunc.len() {
            let (a, cut) = self.pair_trunc[i];
            let b = apply_header(&self.orig, &[self.header_red[a].1.clone()]);
            let cut = cut.min(b.len());
            return (format!("[{}] + truncate@{}", self.header_red[a].0, cut), b[..cut].to_vec());
        }
        i -= self.pair_trunc.len();
        let (a, t) = self.pair_tok[i];
        // token fault applied to the data section of the header-faulted file (data offsets are unchanged by token faults of equal length only; use the token fault's own bytes' data part)
        let hb = apply_header(&self.orig, &[self.header_red[a].1.clone()]);
        let Some(dp_h) = hb.windows(7).position(|w| w == b"[DATA]\n").map(|p| p + 7) else {
            return (format!("[{}] + (no data section left)", self.header_red[a].0), hb);
        };
        let tb = &self.tokens[t].1;
        let dp_t = data_pos(tb);
        let mut out = hb[..dp_h].to_vec();
        out.extend(&tb[dp_t..]);
        (format!("[{}] + [{}]", self.header_red[a].0, self.tokens[t].0), out)
    }
}

/// The same bytes under a file name that is not valid UTF-8 (legal on Linux: a Latin-1 "voix-é"): "ok", "err" or "panic …".
fn classify_named(bytes: &[u8]) -> String {
    use std::os::unix::ffi::OsStrExt;
    static N: std::sync::atomic::AtomicU64 = std::sync::atomic::AtomicU64::new(0);
    let base = tmp_path("c18-name");
    let mut name = base.into_bytes();
    name.extend(format!("-voix-{}-", N.fetch_add(1, std::sync::atomic::Ordering::Relaxed)).as_bytes());
    name.extend(b"\xe9\xff.htsvoice");
    let path = std::path::PathBuf::from(std::ffi::OsStr::from_bytes(&name));
    if std::fs::write(&path, bytes).is_err() {
        return "skip".into();
    }
    let r = catch(|| jbonsai::Engine::load(&[&path]).map(|_| ()));
    let r2 = catch(|| jbonsai::model::load_htsvoice_file(&path).map(|_| ()));
    let _ = std::fs::remove_file(&path);
    match (r, r2) {
        (Ok(Ok(())), Ok(Ok(()))) => "ok".into(),
        (Ok(_), Ok(_)) => "err".into(),
        (Err(p), _) | (_, Err(p)) => {
            let msg: String = p.split(" @ ").next().unwrap_or("").split_whitespace().filter(|w| !w.chars().any(|c| c.is_ascii_digit())).take(4).collect::<Vec<_>>().join("-");
            format!("panic {}:{}", site_of(&p), msg)
        }
    }
}

fn classify(bytes: &[u8]) -> String {
    let plain = match catch(|| engine_from_bytes(bytes).map(|_| ())) {
        Ok(Ok(())) => "ok".to_string(),
        Ok(Err(_)) => "err".to_string(),
        Err(p) => {
            let msg: String = p.split(" @ ").next().unwrap_or("").split_whitespace().filter(|w| !w.chars().any(|c| c.is_ascii_digit())).take(4).collect::<Vec<_>>().join("-");
            format!("panic {}:{}", site_of(&p), msg)
        }
    };
    // every eighth case is also loaded from a path whose name is not valid UTF-8: same verdict, and certainly no panic of its own
    if fnv(bytes) % 8 == 0 {
        let named = classify_named(bytes);
        if named.starts_with("panic") && named != plain {
            return format!("{} (only when the file name is not valid UTF-8)", named);
        }
    }
    plain
}

/// child: `jbv child c18 <base index> <tier> <start> <end>`
pub fn child(args: &[String]) -> i32 {
    unsafe {
        let lim = libc::rlimit { rlim_cur: 3 << 30, rlim_max: 3 << 30 };
        libc::setrlimit(libc::RLIMIT_AS, &lim);
    }
    let bi: usize = args[0].parse().unwrap();
    let thorough = args[1] == "thorough";
    let (start, end): (usize, usize) = (args[2].parse().unwrap(), args[3].parse().unwrap());
    let b = bases();
    let (_, bytes, small) = &b[bi];
    let fs = FaultSet::new(bytes.clone(), *small, *small && (thorough || bi == 0));
    let stdout = std::io::stdout();
    for i in start..end.min(fs.len()) {
        {
            let mut o = stdout.lock();
            let _ = writeln!(o, "S {}", i);
            let _ = o.flush();
        }
        let (_, fb) = fs.get(i);
        let r = classify(&fb);
        let mut o = stdout.lock();
        let _ = writeln!(o, "R {} {}", i, r);
        let _ = o.flush();
    }
    0
}

pub fn run(tier: Tier) -> i32 {
    let rep = Report::new("C18", tier, "fault_enumeration");
    rep.set_rule("fault enumeration on 6 generated voice files (about 2-4 kB: 2/3 streams, GV on/off, single-leaf and 3-leaf trees, quoted/unquoted leaves) and the bundled voice: singles = truncation (every byte offset on generated files; every section/range boundary +-1 and a 64-point lattice on V0), every header number replaced by each of 17 values (incl. non-ASCII Unicode digits), every header line deleted/duplicated/emptied, every header key reshaped in 12 ways (brackets swapped, doubled, missing, out of order, empty) and unknown lines with such keys added, every range inverted, every pair of ranges swapped, tree/question/window tokens renamed or removed (every occurrence on generated files), every number inside window rows (and, on generated files, inside tree text) replaced by each of {0, 4e18, 1e12, a 20-digit number, -1} with the ranges rewritten to match, every tree's brace block emptied or cut down to its first node line, the duration tree replaced by a ladder of 40 diamonds (a DAG with 2^40 paths), runs of 3000 and 2000000 empty lines inside each header section, 200000 GV-off patterns, 26 question patterns with numeric fields at the ends of their ranges (255, 127, -128, 25?, 99?, ...) as GV-off pattern and as first tree question, every text byte of generated files replaced by each of 9 bytes, NUL/0xFF/partial-UTF-8 bytes in every header section, PDF count words overwritten; doubles (thorough; first generated file in quick) = all pairs of reduced header faults on different lines, reduced header fault x truncation (stride 7), reduced header fault x token fault; each case loaded via the real loader + VoiceSet + Condition::load_model in a child process (every eighth case also from a path whose file name is not valid UTF-8) (RLIMIT_AS 3 GiB, 90 s per case); distinct = distinct fault; non-trivial = faulted bytes differ from the base");
    rep.assume("at most two simultaneous faults; V0's binary PDF payload is only truncated and overwritten at its count words");
    unwritable_stderr_part(&rep, &["loader-error", "unknown-option"]);
    let b = bases();
    let outcomes: Mutex<BTreeMap<String, (u64, String)>> = Mutex::new(BTreeMap::new());
    let exe = std::env::current_exe().expect("current exe");
    let total = AtomicU64::new(0);
    let mut plan: Vec<(usize, usize, usize)> = Vec::new(); // (base, start, end)
    let mut sizes = Vec::new();
    let mut fsets: Vec<Option<FaultSet>> = Vec::new();
    for (bi, (_name, bytes, small)) in b.iter().enumerate() {
        fsets.push(None);
        // base must load
        if classify(bytes) != "ok" {
            rep.violation("base-does-not-load", format!("valid base file {} does not load", b[bi].0), json!({"base": b[bi].0}));
            continue;
        }
        let fs = FaultSet::new(bytes.clone(), *small, *small && (tier == Tier::Thorough || bi == 0));
        let n = fs.len();
        sizes.push(json!({"base": b[bi].0, "bytes": bytes.len(), "single_faults": fs.singles(), "double_faults": n - fs.singles()}));
        let chunk = n.div_ceil(if *small { 6 } else { 10 }).max(1);
        let mut s = 0;
        while s < n {
            plan.push((bi, s, (s + chunk).min(n)));
            s += chunk;
        }
        fsets[bi] = Some(fs);
    }
    let tier_name = tier.name();
    par_for(plan.len(), 1, |pi| {
        let (bi, start, end) = plan[pi];
        let mut next = start;
        while next < end {
            let mut ch = Command::new(&exe)
                .args(["child", "c18", &bi.to_string(), tier_name, &next.to_string(), &end.to_string()])
                .stdout(Stdio::piped())
                .stderr(Stdio::null())
                .spawn()
                .expect("spawn child");
            let out = ch.stdout.take().unwrap();
            let (tx, rx) = std::sync::mpsc::channel::<String>();
            let th = std::thread::spawn(move || {
                for line in BufReader::new(out).lines().map_while(Result::ok) {
                    if tx.send(line).is_err() {
                        break;
                    }
                }
            });
            let mut current: Option<usize> = None;
            let mut died = None;
            loop {
                match rx.recv_timeout(std::time::Duration::from_secs(90)) {
                    Ok(line) => {
                        let mut it = line.splitn(3, ' ');
                        match (it.next(), it.next().and_then(|x| x.parse::<usize>().ok())) {
                            (Some("S"), Some(i)) => current = Some(i),
                            (Some("R"), Some(i)) => {
                                let r = it.next().unwrap_or("").to_string();
                                current = None;
                                next = i + 1;
                                total.fetch_add(1, Ordering::Relaxed);
                                rep.outcome(fnv(r.as_bytes()));
                                let mut g = outcomes.lock().unwrap();
                                let e = g.entry(format!("{}", r)).or_insert((0, String::new()));
                                e.0 += 1;
                                if r.starts_with("panic") {
                                    drop(g);
                                    let (name, _) = fsets[bi].as_ref().unwrap().get(i);
                                    rep.violation(r.replacen("panic ", "panic@", 1), format!("loader panics on base {} with fault {{{}}}: {}", b[bi].0, name, r), json!({"base": b[bi].0, "fault_index": i, "fault": name, "tier": tier_name}));
                                }
                            }
                            _ => {}
                        }
                    }
                    Err(std::sync::mpsc::RecvTimeoutError::Timeout) => {
                        let _ = ch.kill();
                        died = Some("timeout (90 s)");
                        break;
                    }
                    Err(std::sync::mpsc::RecvTimeoutError::Disconnected) => {
                        break;
                    }
                }
            }
            let status = ch.wait().ok();
            let _ = th.join();
            if let Some(i) = current {
                // the child died or hung inside case i
                let why = died.unwrap_or("abort/kill");
                let (name, _) = fsets[bi].as_ref().unwrap().get(i);
                total.fetch_add(1, Ordering::Relaxed);
                rep.violation(format!("{}@load", why.split(' ').next().unwrap()), format!("loader {} on base {} with fault {{{}}} (status {:?})", why, b[bi].0, name, status), json!({"base": b[bi].0, "fault_index": i, "fault": name, "tier": tier_name}));
                next = i + 1;
            } else if next < end && status.map(|s| !s.success()).unwrap_or(true) && died.is_none() {
                // child ended early without a case in flight: machinery problem
                rep.guard(false, &format!("child for base {} ended early at {} (status {:?})", bi, next, status));
                break;
            } else if next < end && died.is_none() {
                break;
            }
        }
    });
    let n = total.load(Ordering::Relaxed);
    rep.eval(n);
    rep.nontrivial.store(n, Ordering::Relaxed);
    let oc = outcomes.lock().unwrap();
    rep.note("outcomes", json!(oc.iter().map(|(k, v)| json!({"outcome": k, "count": v.0})).collect::<Vec<_>>()));
    rep.note("bases", json!(sizes));
    let planned: usize = plan.iter().map(|p| p.2 - p.1).sum();
    rep.note("planned_cases", json!(planned));
    rep.sample(json!({"base": b[0].0, "fault": "truncate@37"}));
    rep.sample(json!({"base": "V0", "fault": "num line2 48000->99999999999999999999999999"}));
    rep.sample_last(json!({"base": b[0].0, "fault": "[num line13 ...->0] + truncate@2100"}));
    rep.guard(n as usize == planned, &format!("classified {} of {} planned cases", n, planned));
    rep.guard(oc.get("ok").map(|x| x.0).unwrap_or(0) > 0 && oc.get("err").map(|x| x.0).unwrap_or(0) > 0, "faults never accepted or never rejected");
    drop(oc);
    rep.finish()
}

pub fn replay(v: &serde_json::Value) -> i32 {
    let b = bases();
    let name = v["base"].as_str().unwrap_or("");
    let Some(bi) = b.iter().position(|x| x.0 == name) else {
        println!("unknown base {}", name);
        return 2;
    };
    let thorough = v["tier"].as_str() == Some("thorough");
    let fs = FaultSet::new(b[bi].1.clone(), b[bi].2, b[bi].2 && (thorough || bi == 0));
    let i = v["fault_index"].as_u64().unwrap_or(0) as usize;
    let (fname, bytes) = fs.get(i);
    println!("base {} fault {} ({} bytes)", name, fname, bytes.len());
    let r = classify(&bytes);
    println!("result: {}", r);
    if r.starts_with("panic") {
        1
    } else {
        0
    }
}
