//! C07 – Excitation has the model's pitch and unit power.
//! SCOPE: all frame-symbol sequences of length 3 (+20 repetitions of the last symbol) over
//! {unvoiced, 7 F0 values incl. both clamps} × 16 (rate, frame period) cells × low-pass filters,
//! observed through the public Vocoder with an all-zero spectrum (identity filter).

use crate::common::*;
use jbonsai::vocoder::Vocoder;
use serde_json::json;
use std::sync::atomic::{AtomicU64, Ordering};

const NODATA: f64 = -1e10;
const MIN_LF0: f64 = 2.995_732_273_553_991;
const MAX_LF0: f64 = 9.903_487_552_536_127;

fn run_voc(rate: usize, fp: usize, nlpf: usize, frames: &[(f64, Vec<f64>)]) -> Result<Vec<f64>, String> {
    let frames = frames.to_vec();
    catch(move || {
        let mut v = Vocoder::new(3, nlpf, 0, false, rate, 0.42, 0.0, 1.0, fp);
        let mut all = Vec::with_capacity(frames.len() * fp);
        for (lf0, h) in &frames {
            let mut buf = vec![0.0; fp];
            v.synthesize(*lf0, &[0.0, 0.0, 0.0], h, &mut buf);
            all.extend(buf);
        }
        all
    })
}

fn filters(tier: Tier) -> Vec<(String, Vec<Vec<f64>>)> {
    // each entry: name, list of per-frame filters cycled by frame index
    let mut f: Vec<(String, Vec<Vec<f64>>)> = vec![
        ("delta1".into(), vec![vec![1.0]]),
        ("delta3".into(), vec![vec![0.0, 1.0, 0.0]]),
        ("asym3".into(), vec![vec![0.2, 0.5, 0.3]]),
        ("ramp5".into(), vec![vec![0.1, 0.2, 0.4, 0.2, 0.1]]),
        ("alt3".into(), vec![vec![0.2, 0.5, 0.3], vec![0.0, 0.0, 0.0], vec![1.0 / 3.0; 3]]),
        // taps that are exactly 0 or 1 in places where a shortcut might look: a unit centre tap between other taps and zero
        // ends, a padded impulse, ones at both ends with a zero centre, an impulse in the last tap
        ("unitcentre5".into(), vec![vec![0.0, 0.3, 1.0, -0.2, 0.0]]),
        ("delta5".into(), vec![vec![0.0, 0.0, 1.0, 0.0, 0.0]]),
        ("ends5".into(), vec![vec![1.0, 0.0, 0.0, 0.25, 1.0]]),
        ("tail3".into(), vec![vec![0.0, 0.0, 1.0], vec![1.0, 0.0, 0.0]]),
    ];
    if tier == Tier::Thorough {
        f.push(("zero1".into(), vec![vec![0.0]]));
        f.push(("zero5".into(), vec![vec![0.0; 5]]));
        f.push(("box5".into(), vec![vec![0.2; 5]]));
        f.push(("box31".into(), vec![vec![1.0 / 31.0; 31]]));
        f.push(("ramp31".into(), vec![(0..31).map(|i| (i as f64 + 1.0) / 496.0).collect()]));
        f.push(("alt31".into(), vec![(0..31).map(|i| (i as f64 + 1.0) / 496.0).collect(), (0..31).map(|i| if i == 15 { 1.0 } else { 0.0 }).collect()]));
    }
    f
}

pub fn run(tier: Tier) -> i32 {
    let rep = Report::new("C07", tier, "model_checking");
    rep.set_rule("SCOPE: per (rate in {8k,16k,48k,96k}) x (frame period in {40,80,81,240,480}): all 512 frame triples over {unvoiced, F0 in {20,55.3,123.4,440,rate/2,10(clamps to 20),30k(clamps to 20k)} Hz} followed by the first two symbols in reverse order and 18 repetitions of the third; filters: none plus the listed odd-length low-pass sets (constant and changing per frame; incl. sets whose taps are exactly 0 or 1 at the centre or the ends); real Vocoder with zero spectrum; oracle: pulse height^2 = linearly gliding period, stationary spacing floor/ceil(T0), unit mean power, one vocoder's noise followed through 2^23 samples (thorough 4.6e8): finite, block statistics in range; unvoiced samples bit-equal to the reference noise run (which is the same stream for frame periods 1, 40, 81, 162, 405 and 3240), LPF output = h*pulses + (delta-h)*noise; a slice longer than the frame period gives the same frame and is not written behind it (both filter families); log-F0 values far outside the range (2, 0, -5, the doubles next to the no-data marker, -2e10, -1e300, f64::MIN, -inf; 10, 700, 1e10, 1e300, f64::MAX, +inf) rendered bit-identically to the 20 Hz / 20 kHz limit itself; two vocoders (all pairs of 6 rate/period/low-pass configurations) stepped alternately on one thread produce what each produces alone; distinct = (cell, triple, filter); non-trivial = contains a voiced frame");
    rep.assume("F0 values on the 7-point lattice; T0 is an exact integer for no lattice point (first inter-pulse interval after an onset is ceil(T0)-1 = floor(T0))");
    let rates = [8000usize, 16000, 48000, 96000];
    let fps = [40usize, 80, 81, 240, 480];
    let flt = filters(tier);
    let cells: Vec<(usize, usize)> = rates.iter().flat_map(|r| fps.iter().map(move |f| (*r, *f))).collect();
    let stat_checked = AtomicU64::new(0);
    let power_checked = AtomicU64::new(0);
    let nontriv = AtomicU64::new(0);
    // noise statistics (iv)
    for n in [10_000usize, 100_000] {
        let e = run_voc(48000, n, 0, &[(NODATA, vec![])]).unwrap_or_default();
        rep.eval(1);
        if e.len() != n {
            rep.violation("noise-run", "reference noise run failed", json!({"n": n}));
            continue;
        }
        let mean = e.iter().sum::<f64>() / n as f64;
        let var = e.iter().map(|x| (x - mean) * (x - mean)).sum::<f64>() / n as f64;
        rep.note(&format!("noise_stats_{}", n), json!({"mean": mean, "variance": var}));
        if !(mean.abs() <= 4.0 / (n as f64).sqrt()) || !((var - 1.0).abs() <= 0.03) {
            rep.violation("noise-stats", format!("unvoiced excitation over {} samples has mean {} variance {} (want 0 / 1)", n, mean, var), json!({"frames": 1, "fperiod": n, "lf0": "nodata"}));
        }
        // "white": no correlation between samples 1..8 apart (normalised autocorrelation within 5/sqrt(N))
        let mut worst_rho = 0.0f64;
        for lag in 1..=8usize {
            let rho = (0..n - lag).map(|i| (e[i] - mean) * (e[i + lag] - mean)).sum::<f64>() / ((n - lag) as f64 * var);
            worst_rho = worst_rho.max(rho.abs());
            rep.cmp(1);
            if !(rho.abs() <= 5.0 / (n as f64).sqrt()) {
                rep.violation("noise-white", format!("unvoiced excitation over {} samples is correlated at lag {} (rho {})", n, lag, rho), json!({"frames": 1, "fperiod": n, "lf0": "nodata", "lag": lag}));
                break;
            }
        }
        rep.note(&format!("noise_worst_autocorrelation_{}", n), json!(worst_rho));
    }
    // a long stretch of the noise stream from ONE vocoder (its generator is never re-seeded): every sample finite, every block
    // of 2^20 samples zero-mean / unit-variance / uncorrelated at lag 1 - 2^23 samples in the quick tier, 4.6e8 in the thorough
    // tier (more than ten minutes of audio at 48 kHz times fifteen)
    {
        let total: usize = tier.pick(1usize << 23, 460_000_000);
        let block = 1usize << 20;
        let r = catch(|| {
            let fp = 1usize << 16;
            let mut v = Vocoder::new(3, 0, 0, false, 48000, 0.0, 0.0, 1.0, fp);
            let mut buf = vec![0.0; fp];
            let (mut done, mut worst_mean, mut worst_var, mut worst_rho) = (0usize, 0.0f64, 0.0f64, 0.0f64);
            let (mut s1, mut s2, mut s11, mut nb, mut prev) = (0.0f64, 0.0f64, 0.0f64, 0usize, 0.0f64);
            let mut first_bad: Option<usize> = None;
            while done < total && first_bad.is_none() {
                v.synthesize(NODATA, &[0.0, 0.0, 0.0], &[], &mut buf);
                for (i, x) in buf.iter().enumerate() {
                    if !x.is_finite() {
                        first_bad = Some(done + i);
                        break;
                    }
                    s1 += x;
                    s2 += x * x;
                    s11 += x * prev;
                    prev = *x;
                    nb += 1;
                    if nb == block {
                        let m = s1 / block as f64;
                        let var = s2 / block as f64 - m * m;
                        worst_mean = worst_mean.max(m.abs());
                        worst_var = worst_var.max((var - 1.0).abs());
                        worst_rho = worst_rho.max((s11 / block as f64 - m * m).abs() / var);
                        s1 = 0.0;
                        s2 = 0.0;
                        s11 = 0.0;
                        nb = 0;
                    }
                }
                done += fp;
            }
            (done, first_bad, worst_mean, worst_var, worst_rho)
        });
        rep.eval(1);
        match r {
            Err(p) => rep.violation(format!("panic@{}", site_of(&p)), p, json!({"long_noise_run_samples": total})),
            Ok((done, first_bad, wm, wv, wr)) => {
                rep.cmp((done / block) as u64 * 3);
                rep.note("long_noise_run", json!({"samples": done, "block": block, "worst_block_mean": wm, "worst_block_variance_error": wv, "worst_block_lag1_correlation": wr}));
                if let Some(at) = first_bad {
                    rep.violation("noise-not-finite", format!("sample {} of one vocoder's unvoiced excitation is not a finite number", at), json!({"long_noise_run_samples": total, "sample": at}));
                } else if !(wm <= 6.0 / (block as f64).sqrt()) || !(wv <= 0.02) || !(wr <= 6.0 / (block as f64).sqrt()) {
                    rep.violation("noise-stats-long", format!("a block of 2^20 unvoiced samples has mean {:.4} / variance error {:.4} / lag-1 correlation {:.4} (limits 0.0059, 0.02, 0.0059)", wm, wv, wr), json!({"long_noise_run_samples": total}));
                }
            }
        }
    }
    // the noise is one stream: how it is cut into frames must not matter (same samples for frame periods 40, 81, 162,
    // 3240 and one single long frame)
    {
        let total = 3240usize;
        let runs: Vec<(usize, Result<Vec<f64>, String>)> = [40usize, 81, 162, 3240, 1, 405].iter().map(|fp| (*fp, run_voc(16000, *fp, 0, &vec![(NODATA, vec![]); total / fp]))).collect();
        rep.eval(runs.len() as u64);
        if let Ok(first) = &runs[0].1 {
            for (fp, r) in &runs[1..] {
                rep.cmp(1);
                match r {
                    Ok(x) if bits_eq(x, first) => {}
                    Ok(x) => {
                        let at = x.iter().zip(first).position(|(a, b)| a.to_bits() != b.to_bits());
                        rep.violation("noise-framing", format!("the unvoiced excitation depends on the frame period: {} samples at frame period {} differ from frame period 40 first at sample {:?}", x.len(), fp, at), json!({"rate": 16000, "fperiods": [40, fp], "frames": "all unvoiced"}));
                    }
                    Err(p) => rep.violation(format!("panic@{}", site_of(p)), p.clone(), json!({"rate": 16000, "fperiod": fp, "frames": "all unvoiced"})),
                }
            }
        }
    }
    // log-F0 values far outside the range: anything below log 20 Hz other than the exact no-data marker is a voiced frame at
    // 20 Hz, anything above log 20 kHz a voiced frame at 20 kHz - the output must equal, bit for bit, the output for the
    // limit value itself, with unvoiced and voiced neighbours
    {
        let below = [2.0f64, 0.0, -5.0, -9_999_999_999.999_998, -10_000_000_000.000_002, -2e10, -1e300, f64::MIN, f64::NEG_INFINITY];
        let above = [10.0f64, 700.0, 1e10, 1e300, f64::MAX, f64::INFINITY];
        let mut n = 0u64;
        for (rate, fp) in [(16000usize, 80usize), (48000, 240), (8000, 41)] {
            for nl in [0usize, 5] {
                let h: Vec<f64> = (0..nl).map(|i| 0.1 + 0.05 * i as f64).collect();
                for (vals, limit) in [(&below[..], MIN_LF0), (&above[..], MAX_LF0)] {
                    let mk = |l: f64| -> Vec<(f64, Vec<f64>)> { [100f64.ln(), l, l, 100f64.ln(), NODATA, l, l, NODATA, l].iter().map(|x| (*x, h.clone())).collect() };
                    let Ok(want) = run_voc(rate, fp, nl, &mk(limit)) else { continue };
                    for &l in vals {
                        n += 1;
                        rep.eval(1);
                        rep.cmp(1);
                        let rp = json!({"rate": rate, "fperiod": fp, "lpf_taps": nl, "frame_lf0": mk(l).iter().map(|f| format!("{:e}", f.0)).collect::<Vec<_>>(), "compared_with_lf0": limit});
                        match run_voc(rate, fp, nl, &mk(l)) {
                            Err(p) => rep.violation(format!("panic@{}", site_of(&p)), p, rp),
                            Ok(got) => {
                                if !bits_eq(&got, &want) {
                                    let at = got.iter().zip(&want).position(|(a, b)| a.to_bits() != b.to_bits());
                                    rep.violation("f0-limit", format!("log-F0 {:e} is not rendered as a voiced frame at the {} limit: output differs from the output for log-F0 {} first at sample {:?}", l, if limit == MIN_LF0 { "20 Hz" } else { "20 kHz" }, limit, at), rp);
                                }
                            }
                        }
                    }
                }
            }
        }
        rep.note("out_of_range_lf0_cases", json!(n));
    }
    rep.par_for(cells.len() * 64, 1, "C07 part 1", |job| {
        let (rate, fp) = cells[job / 64];
        let ab = job % 64;
        let (a, b) = (ab / 8, ab % 8);
        let f0s = [f64::NAN, 20.0, 55.3, 123.4, 440.0, rate as f64 / 2.0, 10.0, 30000.0];
        let sym = |i: usize| if i == 0 { NODATA } else { f0s[i].ln() };
        let period = |i: usize| if i == 0 { 0.0 } else { rate as f64 / sym(i).clamp(MIN_LF0, MAX_LF0).exp() };
        let nfr = 3 + 20;
        let e = match run_voc(rate, fp, 0, &vec![(NODATA, vec![]); nfr]) {
            Ok(e) => e,
            Err(p) => {
                rep.violation(format!("panic@{}", site_of(&p)), p, json!({"rate": rate, "fperiod": fp, "frames": "all unvoiced"}));
                return;
            }
        };
        for c in 0..8 {
            // the triple, then its first two symbols again in reverse (so that every pair also occurs *after* the third
            // symbol: voiced-unvoiced-voiced with any two pitches around the gap), then the stationary tail
            let mut seq = vec![a, b, c, b, a];
            seq.extend(vec![c; 18]);
            let rp = |what: &str| json!({"rate": rate, "fperiod": fp, "frame_f0_hz": seq.iter().map(|&i| if i == 0 { json!("unvoiced") } else { json!(f0s[i]) }).collect::<Vec<_>>(), "filter": what});
            let frames0: Vec<(f64, Vec<f64>)> = seq.iter().map(|&i| (sym(i), vec![])).collect();
            rep.eval(1);
            if a + b + c > 0 {
                nontriv.fetch_add(1, Ordering::Relaxed);
            }
            rep.distinct(((rate * 1000 + fp) as u64) << 20 | (a * 64 + b * 8 + c) as u64);
            let p = match run_voc(rate, fp, 0, &frames0) {
                Ok(p) => p,
                Err(pn) => {
                    rep.violation(format!("panic@{}", site_of(&pn)), pn, rp("none"));
                    continue;
                }
            };
            rep.outcome(hash_f64s(&p[..p.len().min(4 * fp)]) ^ hash_f64s(&p[p.len() - fp..]));
            // (i)-(iv) on the no-LPF run
            let mut k = 0usize;
            let mut last_pulse: Option<usize> = None;
            let mut prev_t = 0.0f64;
            let mut last_stat = false;
            let mut bad = false;
            'frames: for (fi, &s) in seq.iter().enumerate() {
                let t = period(s);
                for j in 0..fp {
                    let n = fi * fp + j;
                    let x = p[n];
                    if s == 0 {
                        rep.cmp(1);
                        if x.to_bits() != e[k].to_bits() {
                            rep.violation("noise-bits", format!("unvoiced sample {} differs from the reference noise sequence", n), rp("none"));
                            bad = true;
                            break 'frames;
                        }
                        k += 1;
                        last_pulse = None;
                    } else if x != 0.0 {
                        // largest period in force at any sample since the previous pulse (frames spanned)
                        let mut hi = if prev_t != 0.0 { prev_t.max(t) } else { t };
                        if let Some(lp) = last_pulse {
                            for f2 in lp / fp..=fi {
                                hi = hi.max(period(seq[f2]));
                                if f2 > 0 {
                                    hi = hi.max(period(seq[f2 - 1]));
                                }
                            }
                        }
                        let inst = if prev_t != 0.0 { prev_t + j as f64 * (t - prev_t) / fp as f64 } else { t };
                        rep.cmp(1);
                        if !((x * x - inst).abs() <= 1e-9 * inst) || x < 0.0 {
                            rep.violation("pulse-height", format!("pulse at sample {} has height {} (height^2 {}), want sqrt of the gliding period {}", n, x, x * x, inst), rp("none"));
                            bad = true;
                            break 'frames;
                        }
                        if let Some(lp) = last_pulse {
                            let d = (n - lp) as f64;
                            rep.cmp(1);
                            if d < 1.0 || d > hi.ceil() {
                                rep.violation("pulse-interval", format!("pulses {} samples apart at sample {}, periods {}..{}", d, n, prev_t, t), rp("none"));
                                bad = true;
                                break 'frames;
                            }
                            if prev_t == t && last_stat && fi >= 13 {
                                stat_checked.fetch_add(1, Ordering::Relaxed);
                                if d != t.floor() && d != t.ceil() {
                                    rep.violation("stationary-interval", format!("constant F0: pulses {} samples apart, T0 = {}", d, t), rp("none"));
                                    bad = true;
                                    break 'frames;
                                }
                            }
                        }
                        last_pulse = Some(n);
                        last_stat = prev_t == t;
                    }
                }
                prev_t = t;
            }
            if bad {
                continue;
            }
            // unit mean power over the last 10 repeated frames (voiced, constant F0)
            if c != 0 {
                let t = period(c);
                let span = &p[13 * fp..23 * fp];
                let idx: Vec<usize> = span.iter().enumerate().filter(|(_, x)| **x != 0.0).map(|(i, _)| i).collect();
                if idx.len() >= 3 {
                    let first = idx[0];
                    let last = *idx.last().unwrap();
                    let energy: f64 = span[first..last].iter().map(|x| x * x).sum();
                    let periods = (idx.len() - 1) as f64;
                    let power = energy / (last - first) as f64;
                    power_checked.fetch_add(1, Ordering::Relaxed);
                    if !((power - 1.0).abs() <= 1.0 / periods.max(1.0) + 1.0 / t) {
                        rep.violation("power", format!("mean power of the stationary impulse train is {} (T0 {}, {} periods)", power, t, periods), rp("none"));
                        continue;
                    }
                } else if (10 * fp) as f64 > 3.0 * t {
                    rep.violation("power", format!("fewer than 3 pulses in {} samples at T0 {}", 10 * fp, t), rp("none"));
                    continue;
                }
            }
            // (v) LPF mixing
            for (fname, hs) in &flt {
                let quick_skip = tier == Tier::Quick && (a + b + c) % 3 != 0 && hs[0].len() > 1;
                if quick_skip {
                    continue;
                }
                let nl = hs[0].len();
                let cen = (nl - 1) / 2;
                let frames: Vec<(f64, Vec<f64>)> = seq.iter().enumerate().map(|(fi, &i)| (sym(i), hs[fi % hs.len()].clone())).collect();
                rep.eval(1);
                let y = match run_voc(rate, fp, nl, &frames) {
                    Ok(y) => y,
                    Err(pn) => {
                        rep.violation(format!("panic@{}", site_of(&pn)), pn, rp(fname));
                        continue;
                    }
                };
                for n in 0..y.len() {
                    let mut want = 0.0;
                    for i in 0..nl {
                        if n >= i {
                            let m = n - i;
                            let fi = m / fp;
                            let s = seq[fi];
                            let h = &hs[fi % hs.len()];
                            let pul = if s == 0 { 0.0 } else { p[m] };
                            let hh = if s == 0 { 0.0 } else { h[i] };
                            let d = if i == cen { 1.0 } else { 0.0 };
                            want += hh * pul + (d - hh) * e[m];
                        }
                    }
                    rep.cmp(1);
                    if !((y[n] - want).abs() <= 1e-9 * (1.0 + want.abs())) {
                        rep.violation("lpf-mix", format!("sample {}: got {} want h*pulses+(delta-h)*noise = {} (filter {})", n, y[n], want, fname), rp(fname));
                        break;
                    }
                }
            }
        }
    });
    // two vocoders alive at once and stepped alternately on one thread (a server streaming two voices): each must
    // produce exactly what it produces alone. Pairs differ in rate, frame period, low-pass length or nothing at all.
    let mut interleaved = 0u64;
    {
        let f0s = [f64::NEG_INFINITY, 123.4f64.ln(), 123.4f64.ln(), 440f64.ln(), f64::NEG_INFINITY, 55.3f64.ln(), 55.3f64.ln(), 55.3f64.ln()];
        let mk = |nlpf: usize| -> Vec<(f64, Vec<f64>)> {
            f0s.iter().map(|f| (if f.is_finite() { *f } else { -1e10 }, if nlpf == 0 { vec![] } else { (0..nlpf).map(|k| if k == nlpf / 2 { 0.6 } else { 0.1 / (1 + k) as f64 }).collect() })).collect()
        };
        let cfgs: Vec<(usize, usize, usize)> = vec![(48000, 240, 0), (16000, 80, 0), (16000, 80, 3), (8000, 40, 5), (48000, 80, 3), (16000, 240, 0)];
        for (ai, a) in cfgs.iter().enumerate() {
            for b in cfgs.iter().skip(ai) {
                let (fa, fb) = (mk(a.2), mk(b.2));
                let (sa, sb) = (run_voc(a.0, a.1, a.2, &fa), run_voc(b.0, b.1, b.2, &fb));
                let (a2, b2, fa2, fb2) = (*a, *b, fa.clone(), fb.clone());
                let both = catch(move || {
                    let mut va = Vocoder::new(3, a2.2, 0, false, a2.0, 0.42, 0.0, 1.0, a2.1);
                    let mut vb = Vocoder::new(3, b2.2, 0, false, b2.0, 0.42, 0.0, 1.0, b2.1);
                    let (mut oa, mut ob) = (Vec::new(), Vec::new());
                    for i in 0..fa2.len() {
                        let mut buf = vec![0.0; a2.1];
                        va.synthesize(fa2[i].0, &[0.0, 0.0, 0.0], &fa2[i].1, &mut buf);
                        oa.extend(buf);
                        let mut buf = vec![0.0; b2.1];
                        vb.synthesize(fb2[i].0, &[0.0, 0.0, 0.0], &fb2[i].1, &mut buf);
                        ob.extend(buf);
                    }
                    (oa, ob)
                });
                rep.eval(1);
                interleaved += 1;
                rep.cmp(2);
                let rp = json!({"vocoder_a": {"rate": a.0, "fperiod": a.1, "lowpass_taps": a.2}, "vocoder_b": {"rate": b.0, "fperiod": b.1, "lowpass_taps": b.2}, "frames_f0_hz": ["unvoiced", 123.4, 123.4, 440.0, "unvoiced", 55.3, 55.3, 55.3]});
                match (sa, sb, both) {
                    (Ok(sa), Ok(sb), Ok((oa, ob))) => {
                        if !bits_eq(&sa, &oa) || !bits_eq(&sb, &ob) {
                            rep.violation("interleaved", format!("two vocoders stepped alternately on one thread: vocoder {} no longer produces what it produces alone", if bits_eq(&sa, &oa) { "b" } else { "a" }), rp);
                        }
                    }
                    (_, _, Err(p)) => rep.violation("interleaved-panic", p, rp),
                    _ => {}
                }
            }
        }
    }
    // the vocoder renders one frame per call, however long the caller's slice is: the first fperiod samples are the
    // frame, the rest of the slice is the caller's (both filter families)
    {
        let f0s = [-1e10, 123.4f64.ln(), 200f64.ln(), -1e10, 55.3f64.ln(), 55.3f64.ln()];
        for (stage, spec) in [(0usize, vec![0.1, 0.2, -0.1]), (2, vec![1.0, 1.0, 2.0]), (1, vec![0.7, 0.8, 2.2])] {
            for (rate, fp, nlpf) in [(16000usize, 80usize, 0usize), (16000, 81, 3), (48000, 240, 5)] {
                let lpf: Vec<f64> = (0..nlpf).map(|k| if k == nlpf / 2 { 0.6 } else { 0.1 }).collect();
                let (sp, lp) = (spec.clone(), lpf.clone());
                let r = catch(move || {
                    let mut exact = Vocoder::new(3, nlpf, stage, false, rate, 0.42, 0.0, 1.0, fp);
                    let mut long = Vocoder::new(3, nlpf, stage, false, rate, 0.42, 0.0, 1.0, fp);
                    let mut bad: Option<String> = None;
                    for (fi, f0) in f0s.iter().enumerate() {
                        let mut a = vec![0.0; fp];
                        exact.synthesize(*f0, &sp, &lp, &mut a);
                        let extra = [1usize, fp, 2 * fp + 1][fi % 3];
                        let mut b = vec![7.25; fp + extra];
                        long.synthesize(*f0, &sp, &lp, &mut b);
                        if !bits_eq(&a, &b[..fp]) {
                            bad = Some(format!("frame {}: a slice of {} samples gives another frame than a slice of exactly {}", fi, fp + extra, fp));
                            break;
                        }
                        if b[fp..].iter().any(|x| *x != 7.25) {
                            bad = Some(format!("frame {}: the vocoder wrote behind the frame into the caller's slice", fi));
                            break;
                        }
                    }
                    bad
                });
                rep.eval(1);
                rep.cmp(2);
                let rp = json!({"stage": stage, "rate": rate, "fperiod": fp, "lowpass_taps": nlpf, "spectrum": spec});
                match r {
                    Err(p) => rep.violation(format!("panic@{}", site_of(&p)), p, rp),
                    Ok(Some(what)) => rep.violation("slice-length", format!("{} (stage {}, rate {}, frame period {})", what, stage, rate, fp), rp),
                    Ok(None) => {}
                }
            }
        }
    }
    rep.note("interleaved_vocoder_pairs", json!(interleaved));
    rep.nontrivial.store(nontriv.load(Ordering::Relaxed), Ordering::Relaxed);
    rep.note("bounds", json!({"rates": rates, "frame_periods": fps, "symbols": 8, "triples_per_cell": 512, "repeats_of_last": 20, "filters": flt.iter().map(|f| f.0.clone()).collect::<Vec<_>>(), "stationary_intervals_checked": stat_checked.load(Ordering::Relaxed), "power_checks": power_checked.load(Ordering::Relaxed)}));
    rep.sample(json!({"rate": 8000, "fperiod": 40, "frame_f0_hz": ["unvoiced", 20.0, 440.0, "440 x20"], "filter": "none"}));
    rep.sample_last(json!({"rate": 96000, "fperiod": 480, "frame_f0_hz": [30000.0, 30000.0, 30000.0], "filter": flt.last().unwrap().0}));
    rep.guard(stat_checked.load(Ordering::Relaxed) > 1000, "stationary spacing law hardly exercised");
    rep.guard(power_checked.load(Ordering::Relaxed) > 1000, "power law hardly exercised");
    rep.finish()
}
