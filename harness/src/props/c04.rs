//! C04 – A loaded voice is exactly what the file says.
//! SCOPE: (a) V0: every model × tree × label of the label space vs the independent reader (bit-exact);
//! (b) every distinct question × label space: crate matcher vs glob oracle; (c) generated files over
//! all binary tree shapes with ≤ 3 internal nodes × leaf numberings × quoting × question triples ×
//! layout parameters, against both the independent reader and the generator's spec; (d) metadata,
//! options, windows and engine defaults vs the header text.

use crate::common::*;
use crate::gen::cond::*;
use crate::gen::labels;
use crate::gen::voice::*;
use crate::oracle::reader::*;
use jbonsai::model::voice::model::Model;
use jbonsai::model::voice::question::Question;
use jbonsai::model::Voice;
use serde_json::json;
use std::collections::{BTreeMap, BTreeSet, HashMap};
use std::sync::atomic::{AtomicU64, Ordering};
use std::sync::Mutex;

pub struct LabelCase {
    pub text: String,
    pub label: jlabel::Label,
}

/// corpus ∪ RECOMB1(Λ) ∪ (4 bases × every distinct corpus value of every field group) ∪ typed numeric sweeps ∪ phoneme sweeps
pub fn label_space(tier: Tier, extra_phonemes: &BTreeSet<String>) -> Vec<LabelCase> {
    let corpus = labels::corpus();
    let lam = labels::lambda(&corpus);
    let mut texts: BTreeSet<String> = corpus.iter().cloned().collect();
    let rec = labels::recomb1(&lam, &lam);
    let stride = tier.pick(5usize, 1usize);
    for l in rec.iter().skip(seed() as usize % stride).step_by(stride) {
        texts.insert(l.clone());
    }
    let bases: Vec<String> = vec![corpus[1].clone(), corpus[41].clone(), corpus[700].clone(), corpus[corpus.len() - 1].clone()];
    // every distinct corpus value of every group into each base
    let mut distinct: Vec<BTreeSet<String>> = vec![BTreeSet::new(); 16];
    for l in &corpus {
        for (i, g) in labels::groups(l).into_iter().enumerate() {
            distinct[i].insert(g);
        }
    }
    for p in extra_phonemes {
        for slot in distinct.iter_mut().take(5) {
            slot.insert(p.clone());
        }
    }
    for (bi, b) in bases.iter().enumerate() {
        if tier == Tier::Quick && bi >= 2 {
            break;
        }
        let bg = labels::groups(b);
        for gi in 0..16 {
            for v in &distinct[gi] {
                let mut g = bg.clone();
                g[gi] = v.clone();
                texts.insert(labels::join(&g));
            }
        }
    }
    let mut out: Vec<LabelCase> = Vec::new();
    for t in texts {
        if let Ok(label) = t.parse::<jlabel::Label>() {
            // the text the patterns are matched against is the label's own serialisation
            out.push(LabelCase { text: label.to_string(), label });
        }
    }
    // typed numeric sweeps: every count/position field over the range a front end emits (>= 1, up to
    // the format's documented maximum), accent types from 0, relative accent position over -49..49
    let nmax: u8 = tier.pick(60, 199);
    for (bi, b) in bases.iter().enumerate() {
        if bi >= tier.pick(1, 3) {
            break;
        }
        let base: jlabel::Label = b.parse().unwrap();
        for v in 0..=nmax {
            let mut ls: Vec<jlabel::Label> = Vec::new();
            // (field, sub-field, min, max)
            macro_rules! sweep {
                ($field:ident, $(($sub:ident, $lo:expr, $hi:expr)),+) => {
                    $( if base.$field.is_some() && v >= $lo && v <= $hi { let mut l = base.clone(); if let Some(x) = l.$field.as_mut() { x.$sub = v; } ls.push(l); } )+
                };
            }
            sweep!(mora, (position_forward, 1, 49), (position_backward, 1, 49));
            if base.mora.is_some() && v <= 49 {
                for sgn in [1i16, -1] {
                    let mut l = base.clone();
                    if let Some(x) = l.mora.as_mut() {
                        x.relative_accent_position = (sgn * v as i16) as i8;
                    }
                    ls.push(l);
                }
            }
            sweep!(accent_phrase_curr, (mora_count, 1, 49), (accent_position, 1, 49), (accent_phrase_position_forward, 1, 49), (accent_phrase_position_backward, 1, 49), (mora_position_forward, 1, 99), (mora_position_backward, 1, 99));
            sweep!(accent_phrase_prev, (mora_count, 1, 49), (accent_position, 1, 49));
            sweep!(accent_phrase_next, (mora_count, 1, 49), (accent_position, 1, 49));
            sweep!(breath_group_curr, (accent_phrase_count, 1, 49), (mora_count, 1, 99), (breath_group_position_forward, 1, 19), (breath_group_position_backward, 1, 19), (accent_phrase_position_forward, 1, 49), (accent_phrase_position_backward, 1, 49), (mora_position_forward, 1, 199), (mora_position_backward, 1, 199));
            sweep!(breath_group_prev, (accent_phrase_count, 1, 49), (mora_count, 1, 99));
            sweep!(breath_group_next, (accent_phrase_count, 1, 49), (mora_count, 1, 99));
            for (sub, hi) in [(0usize, 19u8), (1, 49), (2, 199)] {
                if v >= 1 && v <= hi {
                    let mut l = base.clone();
                    match sub {
                        0 => l.utterance.breath_group_count = v,
                        1 => l.utterance.accent_phrase_count = v,
                        _ => l.utterance.mora_count = v,
                    }
                    ls.push(l);
                }
            }
            for l in ls {
                out.push(LabelCase { text: l.to_string(), label: l });
            }
        }
    }
    out
}

fn split_pdf(p: &[f32], half: usize, msd: bool) -> (Vec<(f64, f64)>, Option<f64>) {
    ((0..half).map(|k| (p[k] as f64, p[k + half] as f64)).collect(), if msd { Some(p[2 * half] as f64) } else { None })
}

/// compare one crate model with the independent reader's model on all labels
#[allow(clippy::too_many_arguments)]
fn check_model(rep: &Report, what: &str, rm: &RModel, m: &Model, states: std::ops::Range<usize>, half: usize, msd: bool, space: &[LabelCase], reached: &Mutex<BTreeMap<String, BTreeSet<(usize, usize)>>>, voice_name: &str) {
    let bad = AtomicU64::new(0);
    rep.par_for(space.len(), 64, "C04 part 1", |li| {
        if bad.load(Ordering::Relaxed) > 3 {
            return;
        }
        let lc = &space[li];
        let mut memo: HashMap<&str, bool> = HashMap::new();
        let mut local: Vec<(usize, usize)> = Vec::new();
        for st in states.clone() {
            // reader-side walk with memoised question answers
            let ti = rm.trees.iter().position(|t| t.state == st).expect("tree");
            let t = &rm.trees[ti];
            let leaf = if let Some(l) = t.root_leaf {
                l
            } else {
                let mut id = 0i64;
                loop {
                    let (q, no, yes) = &t.nodes[&id];
                    let ans = *memo.entry(q.as_str()).or_insert_with(|| any_glob(&rm.questions[q], &lc.text));
                    match if ans { yes } else { no } {
                        Child::Leaf(l) => break *l,
                        Child::Node(n) => id = *n,
                    }
                }
            };
            local.push((st, leaf));
            let (want, wmsd) = split_pdf(&rm.pdfs[ti][leaf - 1], half, msd);
            rep.cmp(1);
            let got = catch(|| (m.get_parameter(st, &lc.label).clone(), m.get_index(st, &lc.label)));
            let ok = match &got {
                Err(_) => false,
                Ok((g, idx)) => {
                    g.parameters.len() == want.len()
                        && g.parameters.iter().zip(&want).all(|(g, w)| g.0.to_bits() == w.0.to_bits() && g.1.to_bits() == w.1.to_bits())
                        && g.msd.opt().map(|x| x.to_bits()) == wmsd.map(|x| x.to_bits())
                        && idx.1 == Some(leaf)
                        && idx.0 == Some(ti + 2)
                }
            };
            if !ok {
                bad.fetch_add(1, Ordering::Relaxed);
                let detail = match got {
                    Err(p) => format!("panic {}", p),
                    Ok((g, idx)) => format!("crate index {:?}, first mean {:?}; file's tree selects leaf {} (tree position {}), first mean {:?}", idx, g.parameters.first().map(|x| x.0), leaf, ti, want.first().map(|x| x.0)),
                };
                rep.violation(format!("lookup-{}", what.split(' ').next().unwrap_or(what)), format!("{} {} state {}: {}", voice_name, what, st, detail), json!({"voice": voice_name, "model": what, "state": st, "label": lc.text}));
            }
        }
        let mut g = reached.lock().unwrap();
        g.entry(what.to_string()).or_default().extend(local);
    });
}

fn check_voice_against_reader(rep: &Report, name: &str, bytes: &[u8], v: &Voice, space: &[LabelCase], reached: &Mutex<BTreeMap<String, BTreeSet<(usize, usize)>>>) {
    let rv = RVoice::read(bytes);
    let nstate = rv.num("NUM_STATES");
    // metadata
    rep.cmp(8);
    let md = &v.metadata;
    let mut meta_bad = Vec::new();
    if md.sampling_frequency != rv.num("SAMPLING_FREQUENCY") {
        meta_bad.push("sampling frequency");
    }
    if md.frame_period != rv.num("FRAME_PERIOD") {
        meta_bad.push("frame period");
    }
    if md.num_states != nstate {
        meta_bad.push("number of states");
    }
    if md.num_streams != rv.num("NUM_STREAMS") {
        meta_bad.push("number of streams");
    }
    if md.stream_type != rv.streams() {
        meta_bad.push("stream types");
    }
    if md.hts_voice_version != rv.global["HTS_VOICE_VERSION"] || md.fullcontext_format != rv.global["FULLCONTEXT_FORMAT"] || md.fullcontext_version != rv.global["FULLCONTEXT_VERSION"] {
        meta_bad.push("version/format strings");
    }
    if v.stream_models.len() != rv.streams().len() {
        meta_bad.push("stream model count");
    }
    // GV-off context semantics on the label space
    let gv_off: Vec<String> = rv.global["GV_OFF_CONTEXT"].split(',').map(|p| p.trim_matches('"').to_string()).filter(|p| !p.is_empty()).collect();
    for lc in space.iter().step_by(7) {
        rep.cmp(1);
        if md.gv_off_context.test(&lc.label) != any_glob(&gv_off, &lc.text) {
            meta_bad.push("GV-off context");
            break;
        }
    }
    for mb in meta_bad {
        rep.violation(format!("metadata-{}", mb.replace(' ', "-")), format!("{}: loaded {} differs from the header", name, mb), json!({"voice": name, "field": mb}));
    }
    let dur = rv.model("DURATION_TREE", "DURATION_PDF", 2 * nstate);
    check_model(rep, "duration", &dur, &v.duration_model, 2..3, nstate, false, space, reached, name);
    for (i, s) in rv.streams().iter().enumerate() {
        if i >= v.stream_models.len() {
            break;
        }
        let vl = rv.snum("VECTOR_LENGTH", s);
        let nw = rv.snum("NUM_WINDOWS", s);
        let msd = rv.snum("IS_MSD", s) == 1;
        let use_gv = rv.snum("USE_GV", s) == 1;
        let sm = &v.stream_models[i];
        let opts: Vec<String> = rv.stream[&format!("OPTION[{}]", s)].split(',').filter(|x| !x.is_empty()).map(|x| x.to_string()).collect();
        rep.cmp(5);
        if sm.metadata.vector_length != vl || sm.metadata.num_windows != nw || sm.metadata.is_msd != msd || sm.metadata.use_gv != use_gv || sm.metadata.option != opts {
            rep.violation("metadata-stream", format!("{}: stream {} metadata {:?} differs from the header (len {}, windows {}, msd {}, gv {}, options {:?})", name, s, sm.metadata, vl, nw, msd, use_gv, opts), json!({"voice": name, "stream": s}));
        }
        let len = vl * nw;
        let m = rv.model(&format!("STREAM_TREE[{}]", s), &format!("STREAM_PDF[{}]", s), 2 * len + msd as usize);
        check_model(rep, &format!("stream{} {}", i, s), &m, &sm.stream_model, 2..2 + nstate, len, msd, space, reached, name);
        match (use_gv, &sm.gv_model) {
            (true, Some(gm)) => {
                let g = rv.model(&format!("GV_TREE[{}]", s), &format!("GV_PDF[{}]", s), 2 * vl);
                check_model(rep, &format!("gv{} {}", i, s), &g, gm, 2..3, vl, false, space, reached, name);
            }
            (false, None) => {}
            _ => rep.violation("metadata-gv", format!("{}: stream {} GV model presence does not match USE_GV", name, s), json!({"voice": name, "stream": s})),
        }
        // windows
        let nwin_file = rv.range(&format!("STREAM_WIN[{}]", s)).len();
        let wins: Vec<Vec<f64>> = sm.windows.iter().map(|w| w.iter_rev(0).map(|(_, c)| c).collect::<Vec<_>>().into_iter().rev().collect()).collect();
        rep.cmp(1);
        let want: Vec<Vec<f64>> = (0..nwin_file).map(|wi| rv.window(s, wi)).collect();
        let same = wins.len() == want.len() && wins.iter().zip(&want).all(|(a, b)| bits_eq(a, b));
        if !same {
            rep.violation("windows", format!("{}: stream {} windows {:?} differ from the file's {:?}", name, s, wins, want), json!({"voice": name, "stream": s}));
        }
    }
}

fn check_engine_defaults(rep: &Report, name: &str, bytes: &[u8]) {
    let rv = RVoice::read(bytes);
    let p = tmp_path("c04.htsvoice");
    std::fs::write(&p, bytes).unwrap();
    let r = catch(|| jbonsai::Engine::load(&[&p]));
    let _ = std::fs::remove_file(&p);
    rep.eval(1);
    let e = match r {
        Ok(Ok(e)) => e,
        other => {
            rep.violation("engine-load", format!("{}: Engine::load failed: {:?}", name, other.err()), json!({"voice": name}));
            return;
        }
    };
    let s0 = &rv.streams()[0];
    let opts = &rv.stream[&format!("OPTION[{}]", s0)];
    let mut alpha = 0.0f64;
    let mut stage = 0usize;
    let mut lg = false;
    for o in opts.split(',') {
        if let Some((k, v)) = o.split_once('=') {
            match k {
                "ALPHA" => alpha = v.parse().unwrap(),
                "GAMMA" => stage = v.parse().unwrap(),
                "LN_GAIN" => lg = v == "1",
                _ => {}
            }
        }
    }
    rep.cmp(5);
    let c = &e.condition;
    if c.get_sampling_frequency() != rv.num("SAMPLING_FREQUENCY") || c.get_fperiod() != rv.num("FRAME_PERIOD") || c.get_alpha().to_bits() != alpha.to_bits() {
        rep.violation("engine-defaults", format!("{}: engine defaults (rate {}, fperiod {}, alpha {}) differ from the header ({}, {}, {})", name, c.get_sampling_frequency(), c.get_fperiod(), c.get_alpha(), rv.num("SAMPLING_FREQUENCY"), rv.num("FRAME_PERIOD"), alpha), json!({"voice": name}));
    }
    let render = format!("{:?}", c);
    let field = |k: &str| render.split(&format!("{}: ", k)).nth(1).map(|r| r.split([',', ' ', '}']).next().unwrap_or("").to_string());
    match (field("stage"), field("use_log_gain")) {
        (Some(s), Some(l)) => {
            if s != stage.to_string() || l != lg.to_string() {
                rep.violation("engine-defaults-stage", format!("{}: stage {} / log gain {} differ from the header's GAMMA={} LN_GAIN={}", name, s, l, stage, lg as u8), json!({"voice": name}));
            }
        }
        _ => rep.note("stage_check_skipped", json!("Condition's Debug rendering no longer exposes stage/use_log_gain")),
    }
}

/// The file decides, not its name: a path loaded once, then overwritten with another voice (same byte length, same
/// modification time - what `cp -p`, `rsync -t` or two writes within one clock tick produce) and loaded again while the first
/// engine is still alive, must yield the voice that is in the file now.  Through `Engine::load` and `load_htsvoice_file`.
fn reload_part(rep: &Report) {
    let base = GenCfg { gv: true, nstate: 2, ..GenCfg::default() };
    let a = GenCfg { variant: 0, ..base.clone() }.bytes();
    let b = GenCfg { variant: 2, ..base.clone() }.bytes();
    rep.guard(a.len() == b.len() && a != b, "the two generated voices for the reload part do not have equal length");
    let (va, vb) = (load_voice_bytes(&a).expect("generated voice"), load_voice_bytes(&b).expect("generated voice"));
    let stamp = std::time::SystemTime::UNIX_EPOCH + std::time::Duration::from_secs(1_600_000_000);
    let write = |p: &str, bytes: &[u8]| {
        std::fs::write(p, bytes).expect("write voice");
        let f = std::fs::File::options().write(true).open(p).expect("open voice");
        f.set_modified(stamp).expect("set mtime");
    };
    for via_engine in [true, false] {
        let p = tmp_path("c04-reload.htsvoice");
        write(&p, &a);
        let first = catch(|| jbonsai::Engine::load(&[&p]));
        let first_v = catch(|| jbonsai::model::load_htsvoice_file(&p));
        write(&p, &b);
        rep.eval(1);
        rep.cmp(1);
        let second: Result<Option<jbonsai::model::Voice>, String> = if via_engine {
            catch(|| jbonsai::Engine::load(&[&p]).ok().and_then(|e| e.voices.iter().next().map(|v| (**v).clone())))
        } else {
            catch(|| jbonsai::model::load_htsvoice_file(&p).ok())
        };
        let _ = std::fs::remove_file(&p);
        let how = if via_engine { "Engine::load" } else { "load_htsvoice_file" };
        match second {
            Ok(Some(v)) if v == vb => {}
            Ok(Some(v)) if v == va => rep.violation("stale-file", format!("{}: the path was overwritten with another voice (same length, same modification time) while an engine loaded from it was alive; loading it again yields the old voice", how), json!({"voice": base.describe(), "steps": ["write variant 0", "load (kept alive)", "overwrite with variant 2, same length and mtime", "load again"]})),
            other => rep.violation("reload", format!("{}: loading the overwritten path fails or yields neither voice: {:?}", how, other.map(|o| o.is_some())), json!({"voice": base.describe()})),
        }
        drop(first);
        drop(first_v);
    }
}

/// Free text in the header: the values of COMMENT, HTS_VOICE_VERSION, FULLCONTEXT_FORMAT and FULLCONTEXT_VERSION run to the end
/// of the line and may contain the header's own punctuation (':', '=', ',', brackets).  The voice must load, the text fields
/// must read back as written, and everything else must equal the voice loaded from the unedited file.
fn header_text_part(rep: &Report) {
    let base_bytes = GenCfg { gv: true, nstate: 2, ..GenCfg::default() }.bytes();
    let base = load_voice_bytes(&base_bytes).expect("generated voice");
    let text = String::from_utf8_lossy(&base_bytes).to_string();
    let edits: Vec<(&str, &str)> = vec![
        ("COMMENT:", "COMMENT:see http://example.org/voices/a:b"),
        ("COMMENT:", "COMMENT:built 12:30:05"),
        ("COMMENT:", "COMMENT:x[1]:y, a=b"),
        ("COMMENT:", "COMMENT::"),
        ("HTS_VOICE_VERSION:1.0", "HTS_VOICE_VERSION:1.0:beta"),
        ("FULLCONTEXT_FORMAT:HTS_TTS_JPN", "FULLCONTEXT_FORMAT:HTS_TTS_JPN:v2"),
        ("FULLCONTEXT_VERSION:1.0", "FULLCONTEXT_VERSION:1.0:2"),
        ("FULLCONTEXT_VERSION:1.0", "FULLCONTEXT_VERSION:a=1"),
    ];
    for (from, to) in edits {
        let Some(at) = text.find(&format!("{}\n", from)) else {
            rep.guard(false, &format!("header line {:?} not found in the generated voice", from));
            continue;
        };
        let mut bytes = base_bytes[..at].to_vec();
        bytes.extend(to.as_bytes());
        bytes.extend(&base_bytes[at + from.len()..]);
        rep.eval(1);
        rep.cmp(1);
        let rp = json!({"voice": "generated", "header_line": to});
        match catch(|| load_voice_bytes(&bytes)) {
            Err(p) => rep.violation("header-text", format!("header line {:?}: loading panics: {}", to, p), rp),
            Ok(Err(e)) => rep.violation("header-text", format!("a voice whose header has the line {:?} (free text containing the header's own punctuation) is rejected: {}", to, e), rp),
            Ok(Ok(v)) => {
                let value = &to[to.find(':').unwrap() + 1..];
                let mut want = base.clone();
                match &to[..to.find(':').unwrap()] {
                    "HTS_VOICE_VERSION" => want.metadata.hts_voice_version = value.to_string(),
                    "FULLCONTEXT_FORMAT" => want.metadata.fullcontext_format = value.to_string(),
                    "FULLCONTEXT_VERSION" => want.metadata.fullcontext_version = value.to_string(),
                    _ => {}
                }
                if v != want {
                    rep.violation("header-text", format!("header line {:?}: the loaded voice is not the base voice with that text field (version fields: {:?} / {:?} / {:?})", to, v.metadata.hts_voice_version, v.metadata.fullcontext_format, v.metadata.fullcontext_version), rp);
                }
            }
        }
    }
}

/// What synthesis is handed (Models::duration / model_stream, one voice, default weights) is bit for bit what the voice holds
/// (Model::get_parameter, itself compared with the file by the other parts) - including the sign of a zero: a generated voice
/// whose dynamic-window means are -0.0, and the bundled voice on a stride of the label space.
fn handover_part(rep: &Report, space: &[LabelCase]) {
    let cfg = GenCfg { gv: true, nstate: 2, ..GenCfg::default() };
    let mut spec = cfg.spec();
    for st in spec.streams.iter_mut() {
        for (_, _, pdfs) in st.model.trees.iter_mut() {
            for p in pdfs.iter_mut() {
                for x in p.iter_mut() {
                    if *x == 0.0 {
                        *x = -0.0;
                    }
                }
            }
        }
    }
    let neg = std::sync::Arc::new(load_voice_bytes(&crate::gen::voice::write(&spec)).expect("generated voice with negative zeros"));
    let mut negzeros = 0u64;
    for (name, voice, stride) in [("generated voice with -0.0 entries", neg, 97usize), ("V0", pk(0), 389)] {
        let Ok(e) = engine_from_voices(vec![voice.clone()]) else { continue };
        let nstate = voice.metadata.num_states;
        for lc in space.iter().step_by(stride) {
            let labs = vec![lc.label.clone()];
            let models = jbonsai::model::Models::new(&labs, &e.voices, e.condition.get_interporation_weight());
            rep.eval(1);
            let mut bad: Option<String> = None;
            let dur = models.duration();
            let dp = voice.duration_model.get_parameter(2, &lc.label);
            for s in 0..nstate {
                rep.cmp(2);
                if dur[s].0.to_bits() != dp.parameters[s].0.to_bits() || dur[s].1.to_bits() != dp.parameters[s].1.to_bits() {
                    bad = Some(format!("duration state {}: handed ({:?}, {:?}), voice holds ({:?}, {:?})", s, dur[s].0, dur[s].1, dp.parameters[s].0, dp.parameters[s].1));
                }
            }
            for i in 0..voice.stream_models.len().min(3) {
                let ms = models.model_stream(i);
                for s in 0..nstate {
                    let p = voice.stream_models[i].stream_model.get_parameter(s + 2, &lc.label);
                    for (k, (got, want)) in ms.stream[s].0.iter().zip(p.parameters.iter()).enumerate() {
                        rep.cmp(2);
                        if want.0 == 0.0 && want.0.is_sign_negative() {
                            negzeros += 1;
                        }
                        if got.0.to_bits() != want.0.to_bits() || got.1.to_bits() != want.1.to_bits() {
                            bad = Some(format!("stream {} state {} entry {}: handed ({:?}, {:?}), voice holds ({:?}, {:?})", i, s, k, got.0, got.1, want.0, want.1));
                        }
                    }
                }
            }
            if let Some(b) = bad {
                rep.violation("handover-bits", format!("{}: the parameters handed to synthesis are not bit-equal to the voice's: {}", name, b), json!({"voice": name, "label": lc.text}));
                break;
            }
        }
    }
    rep.note("handover_negative_zero_entries_compared", json!(negzeros));
    rep.guard(negzeros > 0, "no -0.0 entry reached the hand-over comparison");
}

/// all binary tree shapes with k internal nodes, leaves numbered in order 1..
fn shapes(k: usize) -> Vec<TreeSpec> {
    fn build(k: usize) -> Vec<TreeSpec> {
        if k == 0 {
            return vec![TreeSpec::Leaf(0)];
        }
        let mut out = Vec::new();
        for left in 0..k {
            for l in build(left) {
                for r in build(k - 1 - left) {
                    out.push(TreeSpec::node(0, l.clone(), r.clone()));
                }
            }
        }
        out
    }
    build(k)
}
fn assign(t: &TreeSpec, qs: &[usize], next_q: &mut usize, leaf_ids: &[usize], next_l: &mut usize) -> TreeSpec {
    match t {
        TreeSpec::Leaf(_) => {
            let id = leaf_ids[*next_l];
            *next_l += 1;
            TreeSpec::Leaf(id)
        }
        TreeSpec::Node { no, yes, .. } => {
            let q = qs[*next_q % qs.len()];
            *next_q += 1;
            let n = assign(no, qs, next_q, leaf_ids, next_l);
            let y = assign(yes, qs, next_q, leaf_ids, next_l);
            TreeSpec::node(q, n, y)
        }
    }
}

fn sentinel(model: usize, state: usize, leaf: usize, comp: usize, var: bool) -> f32 {
    ((model << 16) | (state << 13) | (leaf << 9) | (comp << 1) | var as usize) as f32 + 0.5
}

#[derive(Clone, Debug)]
struct FileCfg {
    shape: usize,
    assign: usize,
    quoted: bool,
    qtriple: [usize; 3],
    nstate: usize,
    ns: usize,
    vlen: usize,
    wset: usize,
    /// order in which a model's state trees (and, matching them, its PDF blocks) are listed in the file:
    /// 0 ascending state numbers, 1 descending, 2 rotated by one
    order: usize,
    /// numbering / listing of the internal tree nodes (see ModelSpec::numbering)
    numbering: u8,
    /// which of the 6 orders the three spectrum options (ALPHA, GAMMA, LN_GAIN) are written in
    optorder: u8,
    /// 0: streams keyed MCP/LF0/LPF as in the bundled voice, 1: MGC/F0/BAP (the keys are free-form)
    names: u8,
    /// arrangement of the container (gen::voice::write_layout): header keys reversed, data blocks reversed, filler
    container: u8,
    /// the log-F0 tree section defines the first question of the triple under the same NAME but with the patterns of
    /// the second one (question definitions belong to their tree section)
    qredef: bool,
}

fn build_file(fc: &FileCfg, pool: &[(String, Vec<String>)], all_shapes: &[TreeSpec]) -> VoiceSpec {
    let mk_tree = |rot: usize| -> (TreeSpec, usize) {
        let shape = &all_shapes[(fc.shape + rot) % all_shapes.len()];
        let nl = shape.nleaves();
        let ids: Vec<usize> = match fc.assign {
            0 => (1..=nl).collect(),
            1 => (1..=nl).rev().collect(),
            2 => (0..nl).map(|i| (i * 3 + 1) % nl + 1).collect::<Vec<_>>(),
            // tied leaves: the same PDF selected by more than one branch (first and last leaf share PDF 1; with 4
            // leaves also the two middle ones share a PDF)
            _ => (0..nl).map(|i| if nl >= 4 { [1, 2, 2, 1][i % 4] + 2 * (i / 4) } else { i % (nl - 1).max(1) + 1 }).collect::<Vec<_>>(),
        };
        // the fixed permutation must be a permutation
        let ids = if fc.assign == 3 || ids.iter().collect::<BTreeSet<_>>().len() == nl { ids } else { (1..=nl).rev().collect() };
        let nl_pdfs = *ids.iter().max().unwrap();
        let qs: Vec<usize> = fc.qtriple.to_vec();
        (assign(shape, &qs, &mut 0, &ids, &mut 0), nl_pdfs)
    };
    let model = |code: usize, prefix: &str, states: Vec<usize>, half: usize, msd: bool, rot0: usize| -> ModelSpec {
        ModelSpec {
            prefix: prefix.into(),
            questions: {
                let mut q = pool.to_vec();
                if fc.qredef && code == 2 {
                    q[fc.qtriple[0]].1 = pool[fc.qtriple[1]].1.clone();
                }
                q
            },
            quoted: fc.quoted,
            numbering: fc.numbering,
            trees: {
                let mut listed: Vec<(usize, usize)> = states.iter().cloned().enumerate().collect();
                match fc.order {
                    1 => listed.reverse(),
                    2 => listed.rotate_left(1),
                    _ => {}
                }
                listed
            }
                .iter()
                .map(|(si, st)| {
                    let (si, st) = (*si, st);
                    let (t, nl) = mk_tree(if si == 0 { rot0 } else { rot0 + si });
                    let pdfs = (1..=nl)
                        .map(|leaf| {
                            let mut p: Vec<f32> = (0..half).map(|k| sentinel(code, *st, leaf, k, false)).collect();
                            p.extend((0..half).map(|k| sentinel(code, *st, leaf, k, true)));
                            if msd {
                                p.push(0.25 + 0.5 * (leaf % 2) as f32);
                            }
                            p
                        })
                        .collect();
                    (*st, t, pdfs)
                })
                .collect(),
        }
    };
    let windows = window_set(fc.wset);
    let nwin = windows.len();
    let names: [&str; 3] = if fc.names == 0 { ["MCP", "LF0", "LPF"] } else { ["MGC", "F0", "BAP"] };
    let options: Vec<String> = {
        let o = ["ALPHA=0.37", "GAMMA=2", "LN_GAIN=1"];
        let perm = [[0, 1, 2], [0, 2, 1], [1, 0, 2], [1, 2, 0], [2, 0, 1], [2, 1, 0]][fc.optorder as usize % 6];
        let mut v: Vec<String> = perm.iter().map(|i| o[*i].to_string()).collect();
        // optorder 6..: entries the engine does not know (a bare token without '=', an unknown key) at each position;
        // they are skipped, whatever stands behind them still counts
        if fc.optorder >= 6 {
            // a bare token, an unknown key, and unknown keys that merely contain a known key
            let extra = ["MEL_CEPSTRUM", "FOO=1", "POSTFILTER_ALPHA=0.9", "MGC_GAMMA=3", "X_LN_GAIN=0", "ALPHAX=0.9", "GAMMA_2=1", "NO_LN_GAIN_HERE"][(fc.optorder as usize) % 8];
            v.insert(((fc.optorder - 6) / 8) as usize % 4, extra.to_string());
        }
        v
    };
    let states: Vec<usize> = (2..2 + fc.nstate).collect();
    let mut streams = vec![
        StreamSpec { name: names[0].into(), vlen: fc.vlen, is_msd: false, use_gv: true, options: options.clone(), windows: windows.clone(), model: model(1, "mcp", states.clone(), fc.vlen * nwin, false, 0), gv: Some(model(4, "gv_mcp", vec![2], fc.vlen, false, 1)) },
        StreamSpec { name: names[1].into(), vlen: 1, is_msd: true, use_gv: fc.ns == 2, options: vec![], windows: windows.clone(), model: model(2, "lf0", states.clone(), nwin, true, 2), gv: if fc.ns == 2 { Some(model(5, "gv_lf0", vec![2], 1, false, 3)) } else { None } },
    ];
    if fc.ns == 3 {
        streams.push(StreamSpec { name: names[2].into(), vlen: 3, is_msd: false, use_gv: false, options: vec!["X=1".into(), "Y=2".into()], windows: vec![vec![1.0]], model: model(3, "lpf", states.clone(), 3, false, 1), gv: None });
    }
    VoiceSpec { rate: 22050, fperiod: 110, nstate: fc.nstate, gv_off: vec!["*-sil+*".into(), "*-pau+*".into()], dur: model(0, "dur", vec![2], fc.nstate, false, 0), streams }
}

/// spec-side expectation for one model/state/label
fn spec_lookup<'a>(m: &'a ModelSpec, state: usize, text: &str) -> (usize, &'a Vec<f32>) {
    let (_, t, pdfs) = m.trees.iter().find(|(s, _, _)| *s == state).expect("state tree");
    let leaf = t.walk(&|q| any_glob(&m.questions[q].1, text));
    (leaf, &pdfs[leaf - 1])
}

/// Candidate replacement values per field group: distinct corpus values, phoneme symbols from the voice's own
/// patterns, and numeric variants (each number of three representative values replaced by 1..=49).
fn group_candidates(phon: &BTreeSet<String>) -> Vec<Vec<String>> {
    let corpus = labels::corpus();
    let mut distinct: Vec<BTreeSet<String>> = vec![BTreeSet::new(); 16];
    for l in &corpus {
        for (i, g) in labels::groups(l).into_iter().enumerate() {
            distinct[i].insert(g);
        }
    }
    for p in phon {
        for slot in distinct.iter_mut().take(5) {
            slot.insert(p.clone());
        }
    }
    for gi in 5..16 {
        let reps: Vec<String> = distinct[gi].iter().filter(|v| v.chars().any(|c| c.is_ascii_digit())).step_by((distinct[gi].len() / 3).max(1)).take(3).cloned().collect();
        for r in reps {
            let b = r.as_bytes();
            let mut i = 0;
            while i < b.len() {
                if b[i].is_ascii_digit() {
                    let st = i;
                    while i < b.len() && b[i].is_ascii_digit() {
                        i += 1;
                    }
                    let width = i - st;
                    for n in 1..=49u32 {
                        let num = if width == 2 && r[st..i].starts_with('0') { format!("{:02}", n) } else { n.to_string() };
                        distinct[gi].insert(format!("{}{}{}", &r[..st], num, &r[i..]));
                    }
                } else {
                    i += 1;
                }
            }
        }
    }
    distinct.into_iter().map(|s| s.into_iter().collect()).collect()
}

/// Build a label that follows `path` (question, wanted answer) in the reader's tree: start from a base label and
/// change one field group at a time until every question on the path answers as wanted. The result is just one
/// more input: it is checked by both oracles like any other label.
fn construct_label(path: &[(String, bool)], questions: &HashMap<String, Vec<String>>, bases: &[String], cand: &[Vec<String>]) -> Option<LabelCase> {
    let sat = |i: usize, text: &str| any_glob(&questions[&path[i].0], text) == path[i].1;
    'base: for base in bases {
        let mut text = base.clone();
        for i in 0..path.len() {
            if sat(i, &text) {
                continue;
            }
            let g0 = labels::groups(&text);
            let mut found = None;
            'search: for gi in 0..16 {
                for v in &cand[gi] {
                    if *v == g0[gi] {
                        continue;
                    }
                    let mut g = g0.clone();
                    g[gi] = v.clone();
                    let t2 = labels::join(&g);
                    if sat(i, &t2) && (0..i).all(|j| sat(j, &t2)) {
                        found = Some(t2);
                        break 'search;
                    }
                }
            }
            match found {
                Some(t2) => text = t2,
                None => continue 'base,
            }
        }
        if let Ok(label) = text.parse::<jlabel::Label>() {
            let ser = label.to_string();
            if (0..path.len()).all(|i| sat(i, &ser)) {
                return Some(LabelCase { text: ser, label });
            }
        }
    }
    None
}

pub fn run(tier: Tier) -> i32 {
    let rep = Report::new("C04", tier, "model_checking");
    rep.set_rule("SCOPE: (a) bundled voice (also re-packed: data blocks in reverse order and/or separated by 0xFF filler): every model (duration, 3 streams x 5 states, 2 GV) x every label of the label space (corpus + one-group recombinations of the cover set + every distinct corpus value of every field group in 2-4 base labels + typed sweeps of every numeric field over 0..N + phoneme symbols from the voice's own patterns) vs an independent reader of the file + HTS wildcard matcher, bit-exact on means/variances/voicing weight and equal on tree/PDF index; (b) every distinct question of the bundled voice x the label space: crate matcher vs wildcard oracle; 8 synthetic regex-fallback questions (pairs whose pattern lists read the same once glued: {A,B} against {AB}), each object asked about the label space and about 300000 (thorough 500000) further distinct labels; (c) generated files: all binary tree shapes with <= 3 internal nodes x 4 leaf numberings (in order, reversed, permuted, tied: one PDF reached by several branches) x quoted/unquoted x question triples from a pool of real questions (incl. the regex-fallback ones) x layout deviations (states, streams, vector length, window set, order in which the state trees are listed, numbering and listing order of the internal nodes: sequential, non-contiguous ids, ids counted backwards, yes-subtree rows first; the six orders of the spectrum options, also with a bare token or an unknown key inserted at each position; stream keys MGC/F0/BAP instead of MCP/LF0/LPF; header keys in reverse order, data blocks in reverse order and/or separated by filler bytes), one question name defined with other patterns in the log-F0 tree section; plus one large file (a 300-node tree with 301 PDFs, 300 questions, one question with 300 patterns), checked against both the independent reader and the generator's spec (sentinel floats), on a stride after a Serialize/Deserialize round trip of the loaded voice; (d) metadata, options, windows, engine defaults vs the header; (d') the parameters handed to synthesis (Models, one voice) bit-equal to the voice's, incl. the sign of zeros (a generated voice with -0.0 entries); (e) free-text header values containing ':', '=', ',' and brackets; (f) a path overwritten with another voice of the same length and modification time while an engine loaded from it is alive, loaded again; distinct = (file, model, state, label); non-trivial = lookups through a tree with more than one leaf");
    rep.assume("labels limited to the stated label space; generated trees have at most 3 internal nodes; the label text matched by the oracle is the label's own serialisation");
    // ---------- question pool from the bundled voice ----------
    let v0b = v0_bytes();
    let rv = RVoice::read(v0b);
    let nstate = rv.num("NUM_STATES");
    let mut all_q: BTreeMap<String, Vec<String>> = BTreeMap::new();
    let mut models_r: Vec<RModel> = vec![rv.model("DURATION_TREE", "DURATION_PDF", 2 * nstate)];
    for s in rv.streams() {
        let vl = rv.snum("VECTOR_LENGTH", &s);
        let nw = rv.snum("NUM_WINDOWS", &s);
        let msd = rv.snum("IS_MSD", &s);
        models_r.push(rv.model(&format!("STREAM_TREE[{}]", s), &format!("STREAM_PDF[{}]", s), 2 * vl * nw + msd));
        if rv.snum("USE_GV", &s) == 1 {
            models_r.push(rv.model(&format!("GV_TREE[{}]", s), &format!("GV_PDF[{}]", s), 2 * vl));
        }
    }
    for m in &models_r {
        for (k, v) in &m.questions {
            all_q.insert(format!("{}|{}", k, v.join(",")), v.clone());
        }
    }
    // phoneme symbols mentioned by the patterns
    let mut phon: BTreeSet<String> = BTreeSet::new();
    for pats in all_q.values() {
        for p in pats {
            for tok in p.split(|c: char| "*?^-+=/:_!#@|&%".contains(c)) {
                if !tok.is_empty() && tok.len() <= 3 && tok.chars().all(|c| c.is_ascii_alphabetic()) {
                    phon.insert(tok.to_string());
                }
            }
        }
    }
    let space = label_space(tier, &phon);
    rep.note("label_space", json!({"labels": space.len(), "pattern_phonemes": phon.len()}));
    // ---------- (b) question matrix ----------
    let qlist: Vec<(&String, &Vec<String>)> = all_q.iter().collect();
    let regex_q = AtomicU64::new(0);
    let q_yes = AtomicU64::new(0);
    let never_yes = AtomicU64::new(0);
    let regex_names = Mutex::new(Vec::new());
    rep.par_for(qlist.len(), 1, "C04 part 2", |qi| {
        let (name, pats) = qlist[qi];
        let slice: Vec<&str> = pats.iter().map(|s| s.as_str()).collect();
        let q = match catch(|| Question::parse(&slice)) {
            Ok(Ok(q)) => q,
            other => {
                rep.violation("question-parse", format!("real question {} does not parse: {:?}", name, other.err()), json!({"question": name, "patterns": pats}));
                return;
            }
        };
        if matches!(q, Question::Regex(_)) {
            regex_q.fetch_add(1, Ordering::Relaxed);
            regex_names.lock().unwrap().push((name.split('|').next().unwrap().to_string(), pats.clone()));
        }
        let mut yes = 0u64;
        let mut reported = false;
        for lc in &space {
            rep.cmp(1);
            let want = any_glob(pats, &lc.text);
            let got = q.test(&lc.label);
            yes += want as u64;
            if got != want && !reported {
                reported = true;
                rep.violation("question-semantics", format!("question {} answers {} for label {} but HTS wildcard matching of {:?} says {}", name.split('|').next().unwrap(), got, lc.text, pats, want), json!({"question": name, "patterns": pats, "label": lc.text}));
            }
        }
        rep.eval(space.len() as u64);
        q_yes.fetch_add((yes > 0) as u64, Ordering::Relaxed);
        never_yes.fetch_add((yes == 0) as u64, Ordering::Relaxed);
    });
    rep.note("questions", json!({"distinct": qlist.len(), "regex_fallback": regex_q.load(Ordering::Relaxed), "answered_yes_somewhere": q_yes.load(Ordering::Relaxed), "never_yes_in_label_space": never_yes.load(Ordering::Relaxed)}));
    reload_part(&rep);
    header_text_part(&rep);
    handover_part(&rep, &space);
    // ---------- (b') synthetic questions that need the regex fallback ----------
    // pairs of pattern lists that read the same once glued together ({A, B} = "A or B" against {AB} = one pattern), and
    // one object of each asked about several hundred thousand distinct labels (anything remembered per label text, or per
    // pattern text, must not confuse two of them)
    {
        let synth_q: Vec<Vec<String>> = [
            vec!["*^s-*", "*+i=*"],
            vec!["*^s-**+i=*"],
            vec!["*/A:-??+*", "*-a+*"],
            vec!["*/A:-??+**-a+*"],
            vec!["*/A:?+1+*", "*/A:-?+2+*", "*-o+*"],
            vec!["*/A:?+1+**/A:-?+2+*", "*-o+*"],
            vec!["*=o/A:1?+*", "*^k-*"],
            vec!["*=o/A:1?+*^k-*"],
        ]
        .iter()
        .map(|v| v.iter().map(|x| x.to_string()).collect())
        .collect();
        let corpus = labels::corpus();
        let distinct: BTreeSet<String> = corpus.iter().cloned().collect();
        let a2max = tier.pick(7usize, 12usize);
        let mut bulk: Vec<LabelCase> = Vec::new();
        for l in &distinct {
            let g = labels::groups(l);
            for a1 in -15i32..=15 {
                for a2 in 1..=a2max {
                    let mut g2 = g.clone();
                    g2[5] = format!("{}+{}+5", a1, a2);
                    let text = labels::join(&g2);
                    if let Ok(label) = text.parse::<jlabel::Label>() {
                        bulk.push(LabelCase { text, label });
                    }
                }
            }
        }
        let n_regex = AtomicU64::new(0);
        let regex_pairs: Mutex<std::collections::BTreeMap<usize, usize>> = Mutex::new(Default::default());
        let both: Mutex<BTreeSet<usize>> = Mutex::new(BTreeSet::new());
        let yes_no = Mutex::new(Vec::new());
        rep.par_for(synth_q.len(), 1, "C04 synthetic questions", |qi| {
            let pats = &synth_q[qi];
            let slice: Vec<&str> = pats.iter().map(|s| s.as_str()).collect();
            let q = match catch(|| Question::parse(&slice)) {
                Ok(Ok(q)) => q,
                other => {
                    rep.violation("question-parse", format!("pattern list {:?} does not parse: {:?}", pats, other.err()), json!({"patterns": pats}));
                    return;
                }
            };
            // only the regex fallback is of interest here; what the typed parser makes of a glued pattern list that happens
            // to start and end like a single-field pattern is outside the property's domain (questions of the bundled voice)
            if !matches!(q, Question::Regex(_)) {
                return;
            }
            n_regex.fetch_add(1, Ordering::Relaxed);
            if regex_pairs.lock().unwrap().insert(qi / 2, qi % 2).is_some() {
                both.lock().unwrap().insert(qi / 2);
            }
            let mut yes = 0u64;
            for lc in space.iter().chain(bulk.iter()) {
                rep.cmp(1);
                let want = any_glob(pats, &lc.text);
                let got = q.test(&lc.label);
                yes += want as u64;
                if got != want {
                    rep.violation("question-semantics", format!("a question with patterns {:?} answers {} for label {} but HTS wildcard matching says {}", pats, got, lc.text, want), json!({"patterns": pats, "label": lc.text, "asked_before": "every label of the label space and of the bulk set, in order, on the same question object"}));
                    break;
                }
            }
            rep.eval((space.len() + bulk.len()) as u64);
            yes_no.lock().unwrap().push((yes, (space.len() + bulk.len()) as u64 - yes));
        });
        rep.note("synthetic_questions", json!({"questions": synth_q.len(), "regex_fallback": n_regex.load(Ordering::Relaxed), "bulk_labels": bulk.len(), "yes_no_counts": *yes_no.lock().unwrap(), "glued_pairs_both_regex": both.lock().unwrap().len()}));
        rep.guard(n_regex.load(Ordering::Relaxed) >= 4, "fewer than 4 synthetic questions use the regex fallback");
        rep.guard(!both.lock().unwrap().is_empty(), "no glued pair of synthetic questions where both use the regex fallback");
        rep.guard(yes_no.lock().unwrap().iter().filter(|(y, n)| *y > 1000 && *n > 1000).count() >= 4, "synthetic questions do not split the bulk labels");
    }
    // ---------- (a) bundled voice and one perturbed copy through the real loader ----------
    let reached = Mutex::new(BTreeMap::new());
    for k in 0..tier.pick(1usize, 2usize) {
        let bytes = perturb(v0b, k);
        let v = pk(k);
        let name = if k == 0 { "V0".to_string() } else { format!("P{}(V0)", k) };
        check_voice_against_reader(&rep, &name, &bytes, &v, &space, &reached);
        rep.eval((space.len() * 18) as u64);
        check_engine_defaults(&rep, &name, &bytes);
    }
    // ---------- (a') the bundled voice in other arrangements of its container (hundreds of leaves per tree, unlike the
    // generated files): blocks in reverse order and/or separated by non-ASCII filler bytes ----------
    {
        let sub: Vec<LabelCase> = space.iter().step_by(tier.pick(41, 7)).map(|lc| LabelCase { text: lc.text.clone(), label: lc.label.clone() }).collect();
        let dummy = Mutex::new(BTreeMap::new());
        for mode in 1..4u8 {
            let bytes = repack(v0b, mode);
            let name = format!("V0 re-packed (blocks {}{})", if mode & 1 != 0 { "in reverse order" } else { "in the usual order" }, if mode & 2 != 0 { ", 0xFF filler between them" } else { "" });
            rep.eval(1);
            match catch(|| load_voice_bytes(&bytes)) {
                Ok(Ok(v)) => {
                    rep.cmp(1);
                    if v != *pk(0) {
                        rep.violation("repacked-differs", format!("{}: the loaded voice differs from the bundled voice", name), json!({"voice": name}));
                    }
                    check_voice_against_reader(&rep, &name, &bytes, &v, &sub, &dummy);
                    check_engine_defaults(&rep, &name, &bytes);
                }
                Ok(Err(e)) => rep.violation("repacked-load", format!("{}: a legal arrangement of the bundled voice does not load: {}", name, e), json!({"voice": name})),
                Err(p) => rep.violation("repacked-load", format!("{}: loading a legal arrangement of the bundled voice panics: {}", name, p), json!({"voice": name})),
            }
        }
    }
    // ---------- (e) path construction: labels built to reach the leaves the label space missed ----------
    {
        let before: BTreeMap<String, BTreeSet<(usize, usize)>> = reached.lock().unwrap().clone();
        let cand = group_candidates(&phon);
        let corpus = labels::corpus();
        let bases: Vec<String> = vec![corpus[1].clone(), corpus[41].clone(), corpus[700].clone(), corpus[0].clone(), corpus[corpus.len() - 1].clone()];
        // (model name, reader model) in the order used by check_voice_against_reader
        let mut named: Vec<(String, &RModel)> = vec![("duration".to_string(), &models_r[0])];
        let mut mi = 1;
        for (i, sname) in rv.streams().iter().enumerate() {
            named.push((format!("stream{} {}", i, sname), &models_r[mi]));
            mi += 1;
            if rv.snum("USE_GV", sname) == 1 {
                named.push((format!("gv{} {}", i, sname), &models_r[mi]));
                mi += 1;
            }
        }
        let mut todo: Vec<(usize, usize, usize, Vec<(String, bool)>)> = Vec::new(); // (model idx, state, leaf, path)
        let mut total_leaves = 0usize;
        for (ni, (name, rm)) in named.iter().enumerate() {
            let have = before.get(name).cloned().unwrap_or_default();
            for (ti, t) in rm.trees.iter().enumerate() {
                for (leaf, path) in rm.paths(ti) {
                    total_leaves += 1;
                    if !have.contains(&(t.state, leaf)) {
                        todo.push((ni, t.state, leaf, path));
                    }
                }
            }
        }
        let budget = tier.pick(usize::MAX, usize::MAX);
        let stride = (todo.len() / budget.max(1)).max(1);
        let picked: Vec<&(usize, usize, usize, Vec<(String, bool)>)> = todo.iter().skip(seed() as usize % stride).step_by(stride).collect();
        let built: Mutex<Vec<LabelCase>> = Mutex::new(Vec::new());
        let failed = AtomicU64::new(0);
        rep.par_for(picked.len(), 1, "C04 part 3", |i| {
            let (ni, _st, _leaf, path) = picked[i];
            match construct_label(path, &named[*ni].1.questions, &bases, &cand) {
                Some(lc) => built.lock().unwrap().push(lc),
                None => {
                    failed.fetch_add(1, Ordering::Relaxed);
                }
            }
        });
        let built = built.into_inner().unwrap();
        rep.eval(built.len() as u64 * 18);
        if !built.is_empty() {
            check_voice_against_reader(&rep, "V0", v0b, &pk(0), &built, &reached);
        }
        let after: usize = reached.lock().unwrap().values().map(|v| v.len()).sum();
        let before_n: usize = before.values().map(|v| v.len()).sum();
        rep.note("path_construction", json!({"leaves_total": total_leaves, "reached_by_label_space": before_n, "unreached": todo.len(), "attempted": picked.len(), "labels_built": built.len(), "no_label_found": failed.load(Ordering::Relaxed), "reached_after": after}));
    }
    {
        let g = reached.lock().unwrap();
        let mut cov = serde_json::Map::new();
        for (k, v) in g.iter() {
            cov.insert(k.clone(), json!(v.len()));
        }
        rep.note("v0_distinct_(state,leaf)_reached", serde_json::Value::Object(cov));
        for (k, v) in g.iter() {
            if !k.starts_with("stream2") {
                rep.guard(v.len() > 1, &format!("only one leaf reached in {}", k));
            }
        }
    }
    // ---------- (c) generated files ----------
    let mut pool: Vec<(String, Vec<String>)> = default_questions();
    pool.push(("Utt_Len_Mora<=28".into(), vec!["*-?", "*-1?", "*-20", "*-21", "*-22", "*-23", "*-24", "*-25", "*-26", "*-27", "*-28"].into_iter().map(String::from).collect()));
    for (n, p) in regex_names.lock().unwrap().iter().take(3) {
        pool.push((n.clone(), p.clone()));
    }
    // the bundled voice's three regex-fallback questions ("*-1/H:*" ...) can never answer yes on a label a
    // front end emits; add one two-field wildcard question that also needs the fallback and can
    pool.push(("LC-Phone_k_then_vowel_a".into(), vec!["*^k-a+*".into(), "*^k-A+*".into()]));
    let pool_is_regex: Vec<bool> = pool
        .iter()
        .map(|(_, p)| {
            let sl: Vec<&str> = p.iter().map(|s| s.as_str()).collect();
            matches!(Question::parse(&sl), Ok(Question::Regex(_)))
        })
        .collect();
    let all_shapes: Vec<TreeSpec> = (0..=3).flat_map(shapes).collect();
    let mut files: Vec<FileCfg> = Vec::new();
    let default = FileCfg { shape: 0, assign: 0, quoted: true, qtriple: [0, 1, 2], nstate: 2, ns: 3, vlen: 2, wset: 2, order: 0, numbering: 0, optorder: 0, names: 0, container: 0, qredef: false };
    let mut triples: Vec<[usize; 3]> = Vec::new();
    for a in 0..pool.len() {
        for b in 0..pool.len() {
            for c in 0..pool.len() {
                if a != b && b != c && a != c && (tier == Tier::Thorough || (a + 2 * b + 3 * c) % 11 == 0) {
                    triples.push([a, b, c]);
                }
            }
        }
    }
    let layouts: Vec<(usize, usize, usize, usize)> = {
        let mut l = vec![(2usize, 3usize, 2usize, 2usize)];
        for n in [1, 5] {
            l.push((n, 3, 2, 2));
        }
        l.push((2, 2, 2, 2));
        for v in [1, 4] {
            l.push((2, 3, v, 2));
        }
        for w in [0, 1, 3, 6] {
            l.push((2, 3, 2, w));
        }
        if tier == Tier::Thorough {
            for n in [1, 5] {
                for ns in [2, 3] {
                    for v in [1, 4] {
                        for w in [0, 3] {
                            l.push((n, ns, v, w));
                        }
                    }
                }
            }
        }
        l
    };
    for shape in 0..all_shapes.len() {
        for assign in 0..4 {
            for quoted in [true, false] {
                for (ti, t) in triples.iter().enumerate() {
                    for (li, l) in layouts.iter().enumerate() {
                        // <= 2 deviations from the default in the quick tier: tree variant x (triple or layout)
                        if tier == Tier::Quick && ti > 0 && li > 0 {
                            continue;
                        }
                        if tier == Tier::Thorough && ti % 4 != li % 4 && ti > 0 && li > 0 {
                            continue;
                        }
                        files.push(FileCfg { shape, assign, quoted, qtriple: *t, nstate: l.0, ns: l.1, vlen: l.2, wset: l.3, ..default.clone() });
                        // the same file with the spectrum options in each other order, and with other stream keys
                        if ti == 0 && li == 0 && assign == 0 {
                            for optorder in 1..38u8 {
                                files.push(FileCfg { shape, assign, quoted, qtriple: *t, nstate: l.0, ns: l.1, vlen: l.2, wset: l.3, optorder, names: optorder % 2, ..default.clone() });
                            }
                        }
                        // the same file with one question name defined differently in the log-F0 tree section
                        if li == 0 && assign <= 1 && all_shapes[shape].nleaves() >= 2 {
                            files.push(FileCfg { shape, assign, quoted, qtriple: *t, nstate: l.0, ns: l.1, vlen: l.2, wset: l.3, qredef: true, ..default.clone() });
                        }
                        // the same file in the seven other arrangements of the container
                        if ti == 0 && li == 0 && assign <= 1 {
                            for container in 1..8u8 {
                                files.push(FileCfg { shape, assign, quoted, qtriple: *t, nstate: l.0, ns: l.1, vlen: l.2, wset: l.3, container, ..default.clone() });
                            }
                        }
                        // the same file with its internal nodes numbered / listed in the other legal ways
                        if ti == 0 || li == 0 {
                            for numbering in 1..=3u8 {
                                files.push(FileCfg { shape, assign, quoted, qtriple: *t, nstate: l.0, ns: l.1, vlen: l.2, wset: l.3, numbering, ..default.clone() });
                            }
                        }
                        // the same file with its state trees listed in descending / rotated order (states >= 2 only)
                        if l.0 >= 2 && (ti == 0 || li == 0) && (shape + assign) % 2 == 0 {
                            for order in [1usize, 2] {
                                files.push(FileCfg { shape, assign, quoted, qtriple: *t, nstate: if order == 2 { 5 } else { l.0 }, ns: l.1, vlen: l.2, wset: l.3, order, numbering: 0, optorder: 0, names: 0, container: 0, qredef: false });
                            }
                        }
                    }
                }
            }
        }
    }
    // labels for generated files: for every answer vector over the pooled questions that some label of the
    // space realises keep one representative; each file is checked on the representatives covering every
    // feasible answer combination of its own question triple, plus a stride through the corpus
    let corpus = labels::corpus();
    let mut by_mask: BTreeMap<u32, &LabelCase> = BTreeMap::new();
    for lc in &space {
        let mut m = 0u32;
        for (qi, (_, pats)) in pool.iter().enumerate() {
            if any_glob(pats, &lc.text) {
                m |= 1 << qi;
            }
        }
        by_mask.entry(m).or_insert(lc);
    }
    let corpus_stride: Vec<&LabelCase> = space.iter().filter(|lc| corpus.contains(&lc.text)).step_by(97).collect();
    let labels_for = |t: &[usize; 3]| -> Vec<&LabelCase> {
        let mut v: Vec<&LabelCase> = corpus_stride.clone();
        for combo in 0..8u32 {
            if let Some((_, lc)) = by_mask.iter().find(|(m, _)| (0..3).all(|k| ((**m >> t[k]) & 1) == ((combo >> k) & 1))) {
                v.push(lc);
            }
        }
        v
    };
    rep.note("pool_answer_vectors_realised", json!(by_mask.len()));
    let answers_seen = Mutex::new(BTreeSet::new());
    let leaves_seen = AtomicU64::new(0);
    let leaves_total = AtomicU64::new(0);
    let files_ok = AtomicU64::new(0);
    rep.par_for(files.len(), 4, "C04 part 4", |fi| {
        let fc = &files[fi];
        let spec = build_file(fc, &pool, &all_shapes);
        let bytes = crate::gen::voice::write_layout(&spec, fc.container);
        rep.eval(1);
        let name = format!("{:?}", fc);
        let v = match catch(|| load_voice_bytes(&bytes)) {
            Ok(Ok(v)) => v,
            other => {
                rep.violation("generated-load", format!("well-formed generated file does not load: {:?}", other.err().or(Some("error".into()))), json!({"file": name}));
                return;
            }
        };
        files_ok.fetch_add(1, Ordering::Relaxed);
        // on a stride the loaded voice is first sent through its own Serialize/Deserialize round trip (what an application
        // that caches parsed voices does): it must come back equal, and everything below is then checked on the copy
        let v = if fi % 16 == 8 {
            match catch(|| serde_json::to_string(&v).ok().and_then(|t| serde_json::from_str::<jbonsai::model::Voice>(&t).ok())) {
                Ok(Some(v2)) => {
                    rep.cmp(1);
                    if v2 != v {
                        rep.violation("voice-serde", "a loaded voice is not equal to its own Serialize/Deserialize round trip", json!({"file": name}));
                    }
                    v2
                }
                _ => {
                    rep.violation("voice-serde", "a loaded voice does not survive its own Serialize/Deserialize round trip", json!({"file": name}));
                    return;
                }
            }
        } else {
            v
        };
        let l40 = labels_for(&fc.qtriple);
        // spec-side check (sentinels)
        let mut local_leaves: BTreeSet<(usize, usize, usize)> = BTreeSet::new();
        let mut check = |mi: usize, ms: &ModelSpec, m: &Model, states: Vec<usize>, half: usize, msd: bool| {
            for st in states {
                for lc in &l40 {
                    let (leaf, p) = spec_lookup(ms, st, &lc.text);
                    local_leaves.insert((mi, st, leaf));
                    let (want, wmsd) = split_pdf(p, half, msd);
                    rep.cmp(1);
                    let got = catch(|| (m.get_parameter(st, &lc.label).clone(), m.get_index(st, &lc.label)));
                    let ok = match &got {
                        Err(_) => false,
                        Ok((g, idx)) => g.parameters.len() == want.len() && g.parameters.iter().zip(&want).all(|(g, w)| g.0.to_bits() == w.0.to_bits() && g.1.to_bits() == w.1.to_bits()) && g.msd.opt().map(|x| x.to_bits()) == wmsd.map(|x| x.to_bits()) && idx.1 == Some(leaf),
                    };
                    if !ok {
                        rep.violation("generated-lookup", format!("model {} state {}: crate returns {:?}, the file's tree selects leaf {} with first float {:?}", ms.prefix, st, got.map(|g| (g.1, g.0.parameters.first().cloned())), leaf, p.first()), json!({"file": name, "model": ms.prefix, "state": st, "label": lc.text}));
                        return;
                    }
                }
            }
        };
        let states: Vec<usize> = (2..2 + fc.nstate).collect();
        check(0, &spec.dur, &v.duration_model, vec![2], fc.nstate, false);
        for (i, s) in spec.streams.iter().enumerate() {
            let half = s.vlen * s.windows.len();
            check(1 + i, &s.model, &v.stream_models[i].stream_model, states.clone(), half, s.is_msd);
            if let (Some(g), Some(gm)) = (&s.gv, &v.stream_models[i].gv_model) {
                check(10 + i, g, gm, vec![2], s.vlen, false);
            }
        }
        let mut total = spec.dur.trees.iter().map(|t| t.1.nleaves()).sum::<usize>();
        for s in &spec.streams {
            total += s.model.trees.iter().map(|t| t.1.nleaves()).sum::<usize>();
            total += s.gv.as_ref().map(|g| g.trees.iter().map(|t| t.1.nleaves()).sum::<usize>()).unwrap_or(0);
        }
        leaves_seen.fetch_add(local_leaves.len() as u64, Ordering::Relaxed);
        leaves_total.fetch_add(total as u64, Ordering::Relaxed);
        {
            let mut a = answers_seen.lock().unwrap();
            for q in fc.qtriple {
                for lc in &l40 {
                    a.insert((q, any_glob(&pool[q].1, &lc.text)));
                }
            }
        }
        // reader-side check + metadata/windows on a stride of files (the reader is validated by the spec too)
        if fi % 16 == 0 {
            let l40o: Vec<LabelCase> = l40.iter().map(|lc| LabelCase { text: lc.text.clone(), label: lc.label.clone() }).collect();
            let dummy = Mutex::new(BTreeMap::new());
            check_voice_against_reader(&rep, &name, &bytes, &v, &l40o, &dummy);
            check_engine_defaults(&rep, &name, &bytes);
        }
    });
    // ---------- one large generated file: a 300-node tree with 301 PDFs, 300 questions, a question with 300 patterns
    // (counts above 255; everything the small files cannot have) ----------
    {
        let mut spec = build_file(&default, &pool, &all_shapes);
        // the 300-pattern question first (its last pattern matches centre phoneme a), then 290 questions nobody answers
        // yes to, then the pooled real questions: every label but "a" walks past node 291 to a leaf numbered above 256
        let mut questions: Vec<(String, Vec<String>)> = vec![("Big-Question".to_string(), (0..299).map(|k| format!("*-zq{}+*", k)).chain(["*-a+*".to_string()]).collect())];
        let big_q = 0usize;
        for k in 0..290 {
            questions.push((format!("Dummy-{}", k), vec![format!("*-zz{}+*", k), format!("*^zz{}-*", k)]));
        }
        questions.extend(pool.iter().cloned());
        let nq = questions.len();
        // chain along the "no" branch: node k asks question k (pool questions first, then the big one, then dummies)
        let mut chain = TreeSpec::Leaf(nq + 1);
        for k in (0..nq).rev() {
            chain = TreeSpec::node(k, chain, TreeSpec::Leaf(k + 1));
        }
        let half = spec.streams[0].vlen * spec.streams[0].windows.len();
        let mk_pdfs = |st: usize, n: usize| -> Vec<Vec<f32>> {
            (1..=n)
                .map(|leaf| {
                    let mut p: Vec<f32> = (0..half).map(|k| sentinel(1, st, leaf % 16, k, false) + (leaf / 16) as f32 * 1024.0).collect();
                    p.extend((0..half).map(|k| sentinel(1, st, leaf % 16, k, true) + (leaf / 16) as f32 * 1024.0));
                    p
                })
                .collect()
        };
        spec.streams[0].model = ModelSpec { prefix: "mcp".into(), questions, quoted: true, numbering: 0, trees: vec![(2, chain, mk_pdfs(2, nq + 1)), (3, TreeSpec::Leaf(1), mk_pdfs(3, 1))] };
        let bytes = write(&spec);
        rep.eval(1);
        match catch(|| load_voice_bytes(&bytes)) {
            Ok(Ok(v)) => {
                let ms = &spec.streams[0].model;
                let mut leaves = BTreeSet::new();
                for lc in by_mask.values().cloned().chain(corpus_stride.iter().cloned()).chain(space.iter().filter(|l| labels::centre(&l.text) == "a").take(3)) {
                    for st in [2usize, 3] {
                        let (leaf, p) = spec_lookup(ms, st, &lc.text);
                        leaves.insert((st, leaf));
                        let (want, _) = split_pdf(p, half, false);
                        rep.cmp(1);
                        let got = catch(|| (v.stream_models[0].stream_model.get_parameter(st, &lc.label).clone(), v.stream_models[0].stream_model.get_index(st, &lc.label)));
                        let ok = match &got {
                            Err(_) => false,
                            Ok((g, idx)) => g.parameters.len() == want.len() && g.parameters.iter().zip(&want).all(|(g, w)| g.0.to_bits() == w.0.to_bits() && g.1.to_bits() == w.1.to_bits()) && idx.1 == Some(leaf),
                        };
                        if !ok {
                            rep.violation("large-file-lookup", format!("300-node tree, state {}: crate returns {:?}, the file's tree selects leaf {}", st, got.map(|g| g.1), leaf), json!({"file": "large generated file", "label": lc.text}));
                            break;
                        }
                    }
                }
                rep.guard(leaves.iter().any(|(_, l)| *l == big_q + 1) && leaves.iter().filter(|(_, l)| *l > 256).count() >= 2, "the large file's 300-pattern question or its leaves above 256 were never reached");
                rep.note("large_file", json!({"questions": nq, "tree_nodes": nq, "pdfs": nq + 1, "patterns_in_one_question": 300, "distinct_leaves_reached": leaves.len(), "bytes": bytes.len()}));
            }
            Ok(Err(e)) => rep.violation("large-file-load", format!("a well-formed file with a 300-node tree does not load: {}", e), json!({"file": "large generated file"})),
            Err(p) => rep.violation("large-file-load", format!("loading a well-formed file with a 300-node tree panics: {}", p), json!({"file": "large generated file"})),
        }
    }
    rep.nontrivial.store(rep.comparisons.load(Ordering::Relaxed), Ordering::Relaxed);
    rep.note("generated_files", json!({"files": files.len(), "loaded": files_ok.load(Ordering::Relaxed), "tree_shapes": all_shapes.len(), "question_pool": pool.iter().map(|p| p.0.clone()).collect::<Vec<_>>(), "question_triples": triples.len(), "layouts": layouts.len(), "leaves_reached": leaves_seen.load(Ordering::Relaxed), "leaves_total": leaves_total.load(Ordering::Relaxed)}));
    rep.sample(json!({"voice": "V0", "model": "duration", "state": 2, "label": space[0].text}));
    rep.sample(json!({"generated_file": format!("{:?}", files[files.len() / 2])}));
    rep.sample_last(json!({"generated_file": format!("{:?}", files.last().unwrap()), "labels": "representatives of every feasible answer vector of the file's question triple + corpus stride"}));
    rep.guard(regex_q.load(Ordering::Relaxed) >= 1, "no regex-fallback question exercised");
    {
        let a = answers_seen.lock().unwrap();
        let both: Vec<bool> = (0..pool.len()).map(|q| a.contains(&(q, true)) && a.contains(&(q, false))).collect();
        rep.note("pool_questions_answered_both_ways", json!(pool.iter().zip(&both).zip(&pool_is_regex).map(|((p, b), r)| json!({"question": p.0, "both_answers_seen": b, "regex_fallback": r})).collect::<Vec<_>>()));
        rep.guard((0..pool.len()).all(|q| both[q] || (pool_is_regex[q] && q < pool.len() - 1)), "a pooled non-degenerate question never answered both ways");
        rep.guard((0..pool.len()).any(|q| both[q] && pool_is_regex[q]), "no regex-fallback question answered both ways");
    }
    rep.guard(leaves_seen.load(Ordering::Relaxed) * 2 >= leaves_total.load(Ordering::Relaxed), "fewer than half of the generated leaves reached");
    rep.finish()
}
