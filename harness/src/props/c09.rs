//! C09 – Phoneme alignment is honoured.
//! SCOPE: full product of time annotations over utterances of 1..N labels against the grouping law.

use crate::common::*;
use crate::gen::labels;
use crate::gen::voice::GenCfg;
use jbonsai::duration::DurationEstimator;
use jbonsai::label::Labels;
use jbonsai::model::MeanVari;
use serde_json::json;
use std::sync::atomic::{AtomicU64, Ordering};

const TL: [f64; 9] = [0.0, 0.4, 0.5, 1.0, 2.5, 7.0, 30.0, 100.49, 2999.0];

/// second lattice, for duration models with half-integer means whose sums are integers (2.5 + 2.5 = 5): a known end
/// that is *exactly* the sum of the unrounded means
const TL2: [f64; 5] = [0.0, 2.5, 4.0, 5.0, 10.0];

fn annotations_on(tl: &[f64]) -> Vec<(f64, f64)> {
    let mut ann = vec![(-1.0, -1.0)];
    for &s in tl {
        ann.push((s, -1.0));
        ann.push((-1.0, s));
        for &e in tl {
            ann.push((s, e));
        }
    }
    ann
}

fn annotations() -> Vec<(f64, f64)> {
    let mut ann = vec![(-1.0, -1.0)];
    for &s in &TL {
        ann.push((s, -1.0));
        ann.push((-1.0, s));
        for &e in &TL {
            ann.push((s, e));
        }
    }
    ann
}

fn is_tie(x: f64) -> bool {
    (x - x.floor() - 0.5).abs() < 1e-9
}

/// The reference law. Returns Err((key, what)).
pub fn check_alignment(times_in: &[(f64, f64)], d: &[usize], params: &[MeanVari], ns: usize) -> Result<(), (String, String)> {
    let nl = times_in.len();
    let known: Vec<Option<f64>> = (0..nl)
        .map(|i| {
            if times_in[i].1 >= 0.0 {
                Some(times_in[i].1)
            } else if i + 1 < nl && times_in[i + 1].0 >= 0.0 {
                Some(times_in[i + 1].0)
            } else {
                None
            }
        })
        .collect();
    if d.len() != nl * ns {
        let trailing_unknown = known.last().map(|k| k.is_none()).unwrap_or(false);
        return Err((
            if trailing_unknown { "trailing-unknown-dropped".into() } else { "length".into() },
            format!("{} state durations for {} labels x {} states (last label end known: {})", d.len(), nl, ns, !trailing_unknown),
        ));
    }
    if d.iter().any(|x| *x < 1) {
        return Err(("floor".into(), format!("a state got 0 frames: {:?}", d)));
    }
    let mut cum = 0usize;
    let mut group_start = 0usize;
    let mut cum_at_group = 0usize;
    for i in 0..nl {
        for s in 0..ns {
            cum += d[i * ns + s];
        }
        if let Some(e) = known[i] {
            let gstates = (i + 1) * ns - group_start;
            let cands: Vec<f64> = if is_tie(e) { vec![e.floor(), e.ceil()] } else { vec![e.round()] };
            let ok = cands.iter().any(|r| {
                let want = if *r - cum_at_group as f64 <= gstates as f64 { cum_at_group + gstates } else { *r as usize };
                cum == want
            });
            if !ok {
                return Err((
                    "cumulative".into(),
                    format!("label {}: {} frames up to its known end {}, want round(end) (or one per state of the group of {} states starting at frame {})", i, cum, e, gstates, cum_at_group),
                ));
            }
            group_start = (i + 1) * ns;
            cum_at_group = cum;
        }
    }
    // trailing labels without end: model durations
    for st in group_start..nl * ns {
        let m = params[st].0;
        let want = m.round().max(1.0) as usize;
        let ok = if is_tie(m) { d[st] == m.floor().max(1.0) as usize || d[st] == m.ceil().max(1.0) as usize } else { d[st] == want };
        if !ok {
            return Err(("trailing-model-duration".into(), format!("trailing state {} (mean {}) got {} frames, want {}", st, m, d[st], want)));
        }
    }
    Ok(())
}

pub fn run(tier: Tier) -> i32 {
    let rep = Report::new("C09", tier, "model_checking");
    rep.set_rule("SCOPE: full product of per-label annotations {none, start only, end only, both} (on every seventh case also with the unknown entries spelled with other negative numbers than -1, which must give the same stored times) with times from {0,.4,.5,1,2.5,7,30,100.49,2999} frames over utterances of 1..N labels x state counts (and, for duration models with half-integer means, times {0,2.5,4,5,10} over 1..2 labels), through the real Labels::new + DurationEstimator::create_with_alignment; end-to-end string form on V0 and a generated voice (6 rate/period cells, speeds 1, 0.5 and 3 where every label has a known end); distinct = (annotation vector, nstate); non-trivial = at least one label with a known end");
    rep.assume("times are on the 9-point frame lattice; utterances have at most 3 (quick) / 4 (thorough) labels in the exhaustive part");
    let ann1 = annotations();
    let ann2 = annotations_on(&TL2);
    let lab = labels::parse(&labels::corpus()[1]);
    let means1 = [0.2, 1.5, 10.0, 0.5, 60.0];
    let means2 = [2.5, 2.5, 1.5, 3.5, 0.5];
    let max_labels = 3usize;
    let nstates: &[usize] = tier.pick(&[1, 2, 3], &[1, 2, 3, 5]);
    let nontriv = AtomicU64::new(0);
    let trailing = AtomicU64::new(0);
    let infeasible = AtomicU64::new(0);
    for (ann, means, max_labels) in [(&ann1, &means1, max_labels), (&ann2, &means2, 2usize)] {
    for nl in 1..=max_labels {
        for &ns in nstates {
            let params: Vec<MeanVari> = (0..nl * ns).map(|i| MeanVari(means[i % means.len()], 1.0 + (i % 2) as f64)).collect();
            let est = DurationEstimator::new(params.clone(), ns);
            let total = ann.len().pow(nl as u32);
            rep.par_for(total, 512, "C09 part 1", |code| {
                let mut c = code;
                let times: Vec<(f64, f64)> = (0..nl)
                    .map(|_| {
                        let a = ann[c % ann.len()];
                        c /= ann.len();
                        a
                    })
                    .collect();
                let r = catch(|| {
                    let labels = Labels::new(vec![lab.clone(); nl], Some(times.clone())).unwrap();
                    est.create_with_alignment(labels.times())
                });
                rep.eval(1);
                // "no time given" is any negative number for `Labels::new` (the text form hands it -1 x rate): on every seventh
                // case the unknown entries are spelled with other negative numbers, which must give the very same alignment
                if code % 7 == 3 && times.iter().any(|t| t.0 < 0.0 || t.1 < 0.0) {
                    let neg = [-2.0, -0.5, -1e-5, -1e9, f64::MIN, f64::NEG_INFINITY, -5e-324, -0.99, -1.0000000000000002];
                    let mut k = code / 7;
                    let other: Vec<(f64, f64)> = times
                        .iter()
                        .map(|t| {
                            let mut pick = |x: f64| {
                                if x < 0.0 {
                                    k += 1;
                                    neg[k % neg.len()]
                                } else {
                                    x
                                }
                            };
                            (pick(t.0), pick(t.1))
                        })
                        .collect();
                    rep.cmp(1);
                    let a = catch(|| Labels::new(vec![lab.clone(); nl], Some(times.clone())).map(|l| l.times().to_vec()).ok());
                    let b = catch(|| Labels::new(vec![lab.clone(); nl], Some(other.clone())).map(|l| l.times().to_vec()).ok());
                    let same = match (&a, &b) {
                        (Ok(Some(x)), Ok(Some(y))) => x.len() == y.len() && x.iter().zip(y).all(|(p, q)| p.0.to_bits() == q.0.to_bits() && p.1.to_bits() == q.1.to_bits()),
                        _ => false,
                    };
                    if !same {
                        rep.violation("unknown-encoding", format!("Labels::new: unknown times spelled {:?} give {:?}, spelled with -1 ({:?}) they give {:?}", other, b, times, a), json!({"times_frames": other, "nstate": ns, "means": means}));
                    }
                }
                if times.iter().any(|t| t.1 >= 0.0) || times.iter().skip(1).any(|t| t.0 >= 0.0) {
                    nontriv.fetch_add(1, Ordering::Relaxed);
                }
                if times.last().unwrap().1 < 0.0 {
                    trailing.fetch_add(1, Ordering::Relaxed);
                }
                match r {
                    Err(p) => rep.violation(format!("panic@{}", site_of(&p)), p, json!({"times_frames": times, "nstate": ns, "means": means})),
                    Ok(d) => {
                        if let Err((k, what)) = check_alignment(&times, &d, &params, ns) {
                            rep.violation(k, format!("{} :: times(frames)={:?} nstate={} durations={:?}", what, times, ns, d), json!({"times_frames": times, "nstate": ns, "params": params.iter().map(|m| [m.0, m.1]).collect::<Vec<_>>()}));
                        }
                        let tot: usize = d.iter().sum();
                        if code % 16 == 0 {
                            rep.outcome(fnv(format!("{:?}", d).as_bytes()));
                        }
                        if tot == d.len() {
                            infeasible.fetch_add(1, Ordering::Relaxed);
                        }
                    }
                }
            });
        }
    }
    if tier == Tier::Thorough {
        // 4 labels on a reduced annotation alphabet (every kind, 4 times)
        let tl = [0.0, 0.5, 7.0, 100.49];
        let mut ann4 = vec![(-1.0, -1.0)];
        for &s in &tl {
            ann4.push((s, -1.0));
            ann4.push((-1.0, s));
            for &e in &tl {
                ann4.push((s, e));
            }
        }
        for &ns in &[1usize, 2, 5] {
            let nl = 4;
            let ann4 = if ns == 1 { ann.clone() } else { ann4.clone() };
            let params: Vec<MeanVari> = (0..nl * ns).map(|i| MeanVari(means[i % means.len()], 1.0 + (i % 2) as f64)).collect();
            let est = DurationEstimator::new(params.clone(), ns);
            let total = ann4.len().pow(nl as u32);
            rep.par_for(total, 512, "C09 part 2", |code| {
                let mut c = code;
                let times: Vec<(f64, f64)> = (0..nl)
                    .map(|_| {
                        let a = ann4[c % ann4.len()];
                        c /= ann4.len();
                        a
                    })
                    .collect();
                let r = catch(|| {
                    let labels = Labels::new(vec![lab.clone(); nl], Some(times.clone())).unwrap();
                    est.create_with_alignment(labels.times())
                });
                rep.eval(1);
                nontriv.fetch_add(1, Ordering::Relaxed);
                match r {
                    Err(p) => rep.violation(format!("panic@{}", site_of(&p)), p, json!({"times_frames": times, "nstate": ns, "means": means.to_vec()})),
                    Ok(d) => {
                        if let Err((k, what)) = check_alignment(&times, &d, &params, ns) {
                            rep.violation(k, format!("{} :: times(frames)={:?} nstate={} durations={:?}", what, times, ns, d), json!({"times_frames": times, "nstate": ns, "means": means.to_vec()}));
                        }
                    }
                }
            });
        }
    }
    }
    let ann = &ann1;
    // end-to-end: string form "s e label" in 100 ns units through Engine::synthesize, unit conversion for several (rate, fperiod)
    let corpus = labels::corpus();
    let v0 = jbonsai::Engine::load(&[BUNDLED]).expect("bundled");
    let gen = engine_from_bytes(&GenCfg { nstate: 2, ..GenCfg::default() }.bytes()).expect("generated voice");
    let e2e = AtomicU64::new(0);
    let unit_cells: Vec<(usize, usize)> = vec![(48000, 240), (16000, 80), (8000, 1), (44100, 240), (48000, 256), (16000, 3)];
    let utt: Vec<&str> = corpus[40..43].iter().map(|s| s.as_str()).collect();
    // time stamps in seconds per label boundary pattern
    let patterns: Vec<Vec<(Option<f64>, Option<f64>)>> = vec![
        vec![(Some(0.0), Some(0.1)), (Some(0.1), Some(0.25)), (Some(0.25), Some(0.5))],
        vec![(Some(0.0), Some(0.1)), (None, None), (Some(0.3), Some(0.5))],
        vec![(None, None), (None, None), (None, Some(0.4))],
        vec![(Some(0.0), Some(0.2)), (Some(0.2), Some(0.1)), (Some(0.1), Some(0.35))],
        vec![(Some(0.0), Some(0.1)), (None, None), (None, None)],
        vec![(None, None), (None, None), (None, None)],
        vec![(Some(0.0), Some(0.001)), (Some(0.001), Some(0.002)), (Some(0.002), Some(0.0031))],
        // beyond the small scope: a label that ends after 399 s (about 80 000 frames: above 65 536)
        vec![(Some(0.0), Some(0.1)), (Some(0.1), Some(399.0)), (Some(399.0), Some(399.5))],
        // up to the end of the stated domain (below 10 minutes = 6e9 units: above 2^32), on a cell with two frames per second
        vec![(Some(0.0), Some(0.1)), (Some(0.1), Some(450.0)), (Some(450.0), Some(450.5))],
        vec![(Some(0.0), Some(429.4967295)), (Some(429.4967296), Some(429.4967297)), (Some(429.4967297), Some(599.9999999))],
        vec![(None, None), (None, Some(500.0)), (Some(500.0), Some(599.5))],
    ];
    let slow_cell = (8000usize, 4000usize);
    for (ename, base, ns) in [("V0", &v0, 5usize), ("G", &gen, 2usize)] {
        for &(rate, fp) in unit_cells.iter().chain([&slow_cell]) {
            if fp == 1 && ename == "V0" {
                continue;
            }
            for (pat, speed) in patterns.iter().flat_map(|p| [1.0f64, 0.5, 3.0].into_iter().map(move |s| (p, s))) {
                // the alignment decides the frame counts, whatever the speaking rate; speeds other than 1 only where
                // every label is covered by a known end (the statement does not say at which speed trailing labels
                // without an end fall back to their model durations)
                let far = pat.iter().any(|(_, e)| e.map(|x| x > 100.0).unwrap_or(false));
                let very_far = pat.iter().any(|(_, e)| e.map(|x| x > 400.0).unwrap_or(false));
                if (rate, fp) == slow_cell && !very_far {
                    continue;
                }
                if far && !(ename == "G" && (rate, fp) == if very_far { slow_cell } else { unit_cells[1] } && speed == 1.0) {
                    continue;
                }
                if speed != 1.0 && (pat.last().unwrap().1.is_none() || (rate, fp) != unit_cells[0] && (rate, fp) != unit_cells[5]) {
                    continue;
                }
                let mut e = base.clone();
                e.condition.set_speed(speed);
                e.condition.set_sampling_frequency(rate);
                e.condition.set_fperiod(fp);
                e.condition.set_phoneme_alignment_flag(true);
                // build lines: a label has times only if both given; otherwise represent partial info via neighbours
                let lines: Vec<String> = utt
                    .iter()
                    .zip(pat)
                    .map(|(l, (s, en))| match (s, en) {
                        (Some(s), Some(en)) => format!("{} {} {}", (s * 1e7).round() as i64, (en * 1e7).round() as i64, l),
                        (None, Some(en)) => format!("-1 {} {}", (en * 1e7).round() as i64, l),
                        (Some(s), None) => format!("{} -1 {}", (s * 1e7).round() as i64, l),
                        (None, None) => l.to_string(),
                    })
                    .collect();
                let frames_times: Vec<(f64, f64)> = pat
                    .iter()
                    .map(|(s, en)| {
                        let cv = |x: &Option<f64>| x.map(|t| (t * 1e7).round() * rate as f64 / (fp as f64 * 1e7)).unwrap_or(-1.0);
                        (cv(s), cv(en))
                    })
                    .collect();
                let r = catch(|| {
                    let g = e.generator(&lines[..])?;
                    let frames = g.verif_parameters().1.len();
                    let w = g.generate_all();
                    Ok::<_, jbonsai::EngineError>((frames, w.len()))
                });
                rep.eval(1);
                e2e.fetch_add(1, Ordering::Relaxed);
                nontriv.fetch_add(1, Ordering::Relaxed);
                let rp = json!({"engine": ename, "rate": rate, "fperiod": fp, "speed": speed, "lines": lines});
                match r {
                    Err(p) => rep.violation(format!("e2e-panic@{}", site_of(&p)), p, rp),
                    Ok(Err(er)) => rep.violation("e2e-error", format!("well-formed aligned labels rejected: {}", er), rp),
                    Ok(Ok((frames, len))) => {
                        if len != frames * fp {
                            rep.violation("e2e-length", format!("waveform {} samples for {} frames x {}", len, frames, fp), rp.clone());
                        }
                        // reference: total frames from the law using the model durations through the public API
                        let labs: Vec<jlabel::Label> = utt.iter().map(|l| labels::parse(l)).collect();
                        let models = jbonsai::model::Models::new(&labs, &e.voices, e.condition.get_interporation_weight());
                        let params = models.duration();
                        let est = DurationEstimator::new(params.clone(), ns);
                        let lab_times = Labels::new(labs.clone(), Some(frames_times.clone())).unwrap();
                        let d = est.create_with_alignment(lab_times.times());
                        match check_alignment(&frames_times, &d, &params, ns) {
                            Err((k, what)) => rep.violation(format!("e2e-{}", k), format!("{} :: {} rate {} fp {} lines {:?}", what, ename, rate, fp, lines), rp.clone()),
                            Ok(()) => {
                                let want: usize = d.iter().sum();
                                if frames != want {
                                    rep.violation("e2e-units", format!("{}: engine rendered {} frames but the 100ns->frame conversion end*rate/(fp*1e7) gives {}", ename, frames, want), rp.clone());
                                }
                            }
                        }
                    }
                }
            }
        }
    }
    rep.nontrivial.store(nontriv.load(Ordering::Relaxed), Ordering::Relaxed);
    rep.note("bounds", json!({"annotation_alphabet": ann.len(), "max_labels": max_labels, "nstates": nstates, "time_lattice_frames": TL, "trailing_unknown_cases": trailing.load(Ordering::Relaxed), "all_one_frame_cases": infeasible.load(Ordering::Relaxed), "end_to_end": e2e.load(Ordering::Relaxed)}));
    rep.sample(json!({"times_frames": [[0.0, 7.0], [-1.0, -1.0], [30.0, 100.49]], "nstate": 2}));
    rep.sample(json!({"times_frames": [[-1.0, -1.0]], "nstate": 1, "expect": "model durations (trailing label without end)"}));
    rep.sample_last(json!({"end_to_end_lines_pattern": "s e label in 100ns units", "cells": unit_cells}));
    rep.guard(trailing.load(Ordering::Relaxed) > 0, "no trailing-unknown case");
    rep.guard(infeasible.load(Ordering::Relaxed) > 0, "no infeasible (one frame per state) case");
    rep.finish()
}

pub fn replay(v: &serde_json::Value) -> i32 {
    let times: Vec<(f64, f64)> = v["times_frames"].as_array().cloned().unwrap_or_default().iter().map(|x| (x[0].as_f64().unwrap_or(-1.0), x[1].as_f64().unwrap_or(-1.0))).collect();
    let ns = v["nstate"].as_u64().unwrap_or(1) as usize;
    let means: Vec<f64> = v["means"].as_array().map(|a| a.iter().filter_map(|x| x.as_f64()).collect()).filter(|m: &Vec<f64>| !m.is_empty()).unwrap_or_else(|| vec![0.2, 1.5, 10.0, 0.5, 60.0]);
    let params: Vec<MeanVari> = match v["params"].as_array() {
        Some(p) => p.iter().map(|x| MeanVari(x[0].as_f64().unwrap_or(1.0), x[1].as_f64().unwrap_or(1.0))).collect(),
        None => (0..times.len() * ns).map(|i| MeanVari(means[i % means.len()], 1.0 + (i % 2) as f64)).collect(),
    };
    if times.is_empty() {
        println!("{}", v);
        println!("end-to-end case: re-run `./run C09 quick`; the file lists the literal label lines");
        return 0;
    }
    let lab = labels::parse(&labels::corpus()[1]);
    let r = catch(|| {
        let l = Labels::new(vec![lab.clone(); times.len()], Some(times.clone())).unwrap();
        DurationEstimator::new(params.clone(), ns).create_with_alignment(l.times())
    });
    match r {
        Err(p) => {
            println!("replay: panic {}", p);
            1
        }
        Ok(d) => match check_alignment(&times, &d, &params, ns) {
            Ok(()) => {
                println!("replay: holds, durations {:?}", d);
                0
            }
            Err((k, what)) => {
                println!("replay: {}: {} (durations {:?})", k, what, d);
                1
            }
        },
    }
}
