//! C19 – Voice sets and interpolation weights are validated.
//! SCOPE: all one-field metadata differences × list positions for VoiceSet::new;
//! HIST (stateright): all histories of weight updates (valid and invalid) to the depth bound on real
//! engines, reference = plain vectors that change only on accepted updates; synthesis compared with
//! a fresh engine carrying the reference's effective weights.

use crate::common::*;
use crate::gen::cond::*;
use crate::gen::labels;
use crate::gen::voice::GenCfg;
use jbonsai::model::{Voice, VoiceSet};
use jbonsai::Engine;
use serde_json::{json, Value};
use stateright::{Checker, Model, Property};
use std::hash::{Hash, Hasher};
use std::sync::atomic::{AtomicU64, Ordering};
use std::sync::Arc;

#[derive(Clone, Debug, PartialEq)]
pub struct WAct {
    quantity: usize, // 0 duration, 1..=ns parameter, then gv
    w: Vec<f64>,
    valid: bool,
    /// > 0: not a weight update but `Condition::load_model` with the first `reload` voices of the pool on the
    /// condition in use, followed by `Engine::new` (default equal weights must be in force afterwards)
    reload: usize,
}
impl Eq for WAct {}
impl Hash for WAct {
    fn hash<H: Hasher>(&self, h: &mut H) {
        format!("{:?}", self).hash(h)
    }
}

#[derive(Clone, Debug)]
pub struct WState {
    depth: u8,
    engine: Engine,
    render: String,
    reference: Vec<Vec<f64>>,
    bad: Option<String>,
    /// number of voices of `engine`
    nv: usize,
    /// the calls that led here (not part of the state's identity; used for reporting)
    hist: Vec<WAct>,
}
impl PartialEq for WState {
    fn eq(&self, o: &Self) -> bool {
        self.depth == o.depth && self.render == o.render && self.bad == o.bad
    }
}
impl Eq for WState {}
impl Hash for WState {
    fn hash<H: Hasher>(&self, h: &mut H) {
        self.depth.hash(h);
        self.render.hash(h);
        self.bad.hash(h);
    }
}

pub struct WModel {
    base: Engine,
    /// fresh engines on the first k voices of the pool (index k), k = 1..=3
    fresh: Vec<Option<Engine>>,
    pool: Vec<Arc<Voice>>,
    ns: usize,
    nv: usize,
    /// weight-update alphabet per current voice count (index = voice count)
    acts: Vec<Vec<WAct>>,
    found: std::sync::Mutex<Vec<(Vec<WAct>, String, usize)>>,
    depth: u8,
    utt: Vec<String>,
    transitions: AtomicU64,
    synths: AtomicU64,
    rejected: AtomicU64,
    checked_last: AtomicU64,
    monitor: Arc<HangMonitor>,
}

fn apply_real(e: &mut Engine, ns: usize, a: &WAct) -> Result<(), String> {
    let iw = e.condition.get_interporation_weight_mut();
    let r = if a.quantity == 0 {
        iw.set_duration(&a.w)
    } else if a.quantity <= ns {
        iw.set_parameter(a.quantity - 1, &a.w)
    } else {
        iw.set_gv(a.quantity - 1 - ns, &a.w)
    };
    r.map_err(|e| e.to_string())
}
fn getters_match(e: &Engine, ns: usize, reference: &[Vec<f64>]) -> Option<String> {
    let iw = e.condition.get_interporation_weight();
    let eqv = |a: &[f64], b: &[f64]| a.len() == b.len() && a.iter().zip(b).all(|(x, y)| x.to_bits() == y.to_bits());
    if !eqv(iw.get_duration(), &reference[0]) {
        return Some(format!("duration weights {:?}, reference {:?}", &iw.get_duration()[..], reference[0]));
    }
    for i in 0..ns {
        if !eqv(iw.get_parameter(i), &reference[1 + i]) {
            return Some(format!("parameter[{}] weights {:?}, reference {:?}", i, &iw.get_parameter(i)[..], reference[1 + i]));
        }
        if !eqv(iw.get_gv(i), &reference[1 + ns + i]) {
            return Some(format!("gv[{}] weights {:?}, reference {:?}", i, &iw.get_gv(i)[..], reference[1 + ns + i]));
        }
    }
    None
}

impl WModel {
    fn synth_check(&self, s: &WState) -> Option<String> {
        // waveform of the history engine == waveform of a fresh engine given only the reference's effective weights
        let mut fresh = self.fresh[s.nv].clone().expect("fresh engine");
        {
            let iw = fresh.condition.get_interporation_weight_mut();
            if iw.set_duration(&s.reference[0]).is_err() {
                return Some("reference weights rejected (duration)".into());
            }
            for i in 0..self.ns {
                if iw.set_parameter(i, &s.reference[1 + i]).is_err() || iw.set_gv(i, &s.reference[1 + self.ns + i]).is_err() {
                    return Some("reference weights rejected".into());
                }
            }
        }
        self.synths.fetch_add(1, Ordering::Relaxed);
        match (synth(&s.engine, &self.utt), synth(&fresh, &self.utt)) {
            (Ok(a), Ok(b)) => {
                if bits_eq(&a, &b) {
                    None
                } else {
                    Some("waveform after the history differs from a fresh engine with the effective weights".into())
                }
            }
            (a, b) => Some(format!("synthesis failed: history {:?} fresh {:?}", a.err(), b.err())),
        }
    }
}

impl Model for WModel {
    type State = WState;
    type Action = WAct;
    fn init_states(&self) -> Vec<WState> {
        let eq = vec![1.0 / self.nv as f64; self.nv];
        let reference = vec![eq; 1 + 2 * self.ns];
        let bad = getters_match(&self.base, self.ns, &reference).map(|m| format!("initial: {}", m));
        if let Some(b) = &bad {
            self.found.lock().unwrap().push((vec![], b.clone(), self.nv));
        }
        vec![WState { depth: 0, render: format!("{} voices {:?}", self.nv, self.base.condition.get_interporation_weight()), engine: self.base.clone(), reference, bad, nv: self.nv, hist: vec![] }]
    }
    fn actions(&self, s: &WState, out: &mut Vec<WAct>) {
        if s.depth < self.depth && s.bad.is_none() {
            out.extend(self.acts[s.nv].iter().cloned());
            for k in 1..=self.pool.len() {
                out.push(WAct { quantity: 0, w: vec![], valid: true, reload: k });
            }
        }
    }
    fn next_state(&self, s: &WState, a: WAct) -> Option<WState> {
        self.transitions.fetch_add(1, Ordering::Relaxed);
        let _watch = self.monitor.enter(|| format!("{:?} after {}", a, s.render));
        let mut engine = s.engine.clone();
        let mut reference = s.reference.clone();
        let mut nv = s.nv;
        let mut hist = s.hist.clone();
        hist.push(a.clone());
        if a.reload > 0 {
            // the condition in use is loaded again, with the same or another number of voices
            let k = a.reload;
            let pool = self.pool.clone();
            let cond = engine.condition.clone();
            let r = catch(move || -> Result<Engine, String> {
                let vs = VoiceSet::new(pool[..k].to_vec()).map_err(|e| e.to_string())?;
                let mut cond = cond;
                cond.load_model(&vs).map_err(|e| e.to_string())?;
                Ok(Engine::new(vs, cond))
            });
            let bad = match r {
                Err(p) => Some(format!("panic: {}", p)),
                Ok(Err(e)) => Some(format!("load_model with {} voices rejected: {}", k, e)),
                Ok(Ok(e)) => {
                    engine = e;
                    nv = k;
                    reference = vec![vec![1.0 / k as f64; k]; 1 + 2 * self.ns];
                    getters_match(&engine, self.ns, &reference).map(|m| format!("after load_model with {} voices on a condition that held {}: {}", k, s.nv, m))
                }
            };
            let mut st = WState { depth: s.depth + 1, render: format!("{} voices {:?}", nv, engine.condition.get_interporation_weight()), engine, reference, bad, nv, hist };
            if st.bad.is_none() {
                st.bad = self.synth_check(&st).map(|m| format!("after load_model with {} voices: {}", k, m));
            }
            if let Some(b) = &st.bad {
                self.found.lock().unwrap().push((st.hist.clone(), b.clone(), st.nv));
            }
            return Some(st);
        }
        let r = catch(|| apply_real(&mut engine, self.ns, &a));
        let mut bad = match r {
            Err(p) => Some(format!("panic: {}", p)),
            Ok(Ok(())) => {
                if !a.valid {
                    Some(format!("invalid weights {:?} accepted for quantity {}", a.w, a.quantity))
                } else {
                    reference[a.quantity] = a.w.clone();
                    None
                }
            }
            Ok(Err(e)) => {
                if a.valid {
                    Some(format!("valid weights {:?} rejected: {}", a.w, e))
                } else {
                    self.rejected.fetch_add(1, Ordering::Relaxed);
                    None
                }
            }
        };
        if bad.is_none() {
            bad = getters_match(&engine, self.ns, &reference).map(|m| format!("after {:?}: {}", a, m));
        }
        let mut st = WState { depth: s.depth + 1, render: format!("{} voices {:?}", nv, engine.condition.get_interporation_weight()), engine, reference, bad, nv, hist };
        // synthesis after every update (the property's "subsequent synthesis")
        if st.bad.is_none() {
            st.bad = self.synth_check(&st).map(|m| format!("after {:?}: {}", a, m));
        }
        if let Some(b) = &st.bad {
            self.found.lock().unwrap().push((st.hist.clone(), b.clone(), st.nv));
        }
        Some(st)
    }
    fn properties(&self) -> Vec<Property<Self>> {
        vec![Property::always("weights validated and effective", |m: &WModel, s: &WState| {
            if s.depth == m.depth {
                m.checked_last.fetch_add(1, Ordering::Relaxed);
            }
            s.bad.is_none()
        })]
    }
}

fn weight_alphabet(nv: usize) -> Vec<(Vec<f64>, bool)> {
    if nv == 1 {
        vec![(vec![1.0], true), (vec![0.5, 0.5], false), (vec![1.000001], false), (vec![0.5], false), (vec![], false), (vec![f64::NAN], false)]
    } else if nv == 2 {
        vec![
            (vec![1.0, 0.0], true),
            (vec![0.0, 1.0], true),
            (vec![0.5, 0.5], true),
            (vec![0.3, 0.7], true),
            (vec![1.5, -0.5], true),
            (vec![1.0], false),
            (vec![1.0 / 3.0, 1.0 / 3.0, 1.0 / 3.0], false),
            (vec![0.5, 0.500001], false),
            (vec![0.5, 0.6], false),
            (vec![f64::NAN, 1.0], false),
            (vec![f64::INFINITY, f64::NEG_INFINITY], false),
            (vec![], false),
            // large magnitudes whose float sum is clearly not 1, and an infinite sum
            (vec![6.0e9, -6.0e9 + 1.000002], false),
            (vec![f64::INFINITY, 0.0], false),
            (vec![1.0e16, -1.0e16], false),
        ]
    } else {
        vec![
            (vec![1.0, 0.0, 0.0], true),
            (vec![0.0, 0.0, 1.0], true),
            (vec![0.25, 0.25, 0.5], true),
            (vec![0.2, 0.3, 0.5], true),
            (vec![1.5, -0.25, -0.25], true),
            (vec![0.5, 0.5], false),
            (vec![0.25, 0.25, 0.25, 0.25], false),
            (vec![0.5, 0.25, 0.250001], false),
            (vec![0.5, 0.5, 0.1], false),
            (vec![f64::NAN, 0.5, 0.5], false),
            (vec![f64::INFINITY, f64::NEG_INFINITY, 1.0], false),
            (vec![6.0e9, -6.0e9 + 1.000002, 0.0], false),
            (vec![f64::INFINITY, 0.5, 0.5], false),
        ]
    }
}

/// Sets of many voices (5..17, thorough 65): weight vectors whose validity is decided by entries far from the start.
fn many_voices_part(rep: &Report, tier: Tier) {
    let cfg = GenCfg { gv: true, nstate: 2, ..GenCfg::default() };
    let ns = cfg.ns;
    let corpus = labels::corpus();
    let utt = vec![corpus[41].clone(), corpus[42].clone()];
    let mut calls = 0u64;
    for nv in tier.pick(vec![5usize, 8, 9, 10, 16, 17], vec![5, 7, 8, 9, 10, 15, 16, 17, 24, 25, 33, 64, 65]) {
        let voices: Vec<Arc<Voice>> = (0..nv).map(|v| Arc::new(load_voice_bytes(&GenCfg { variant: (v % 7) as u32, ..cfg.clone() }.bytes()).expect("generated voice"))).collect();
        let base = match engine_from_voices(voices) {
            Ok(e) => e,
            Err(er) => {
                rep.violation("many-voices-set", format!("{} compatible voices rejected: {}", nv, er), json!({"voices": nv}));
                continue;
            }
        };
        let eq = vec![1.0 / nv as f64; nv];
        // (vector, valid)
        let mut ws: Vec<(Vec<f64>, bool)> = Vec::new();
        let unit = |k: usize| {
            let mut v = vec![0.0; nv];
            v[k] = 1.0;
            v
        };
        ws.push((unit(0), true));
        ws.push((unit(nv - 1), true));
        // every entry non-zero and all different, adding up to exactly 1: 1/2, 1/4, ..., the last one repeated
        let mut dy: Vec<f64> = (0..nv).map(|i| 0.5f64.powi(i as i32 + 1)).collect();
        dy[nv - 1] = dy[nv - 2];
        ws.push((dy, true));
        let mut tail = vec![0.0; nv];
        tail[nv - 1] = 0.5;
        tail[nv - 2] = 0.5;
        ws.push((tail, true));
        // the first entries alone sum to 1, the rest adds more: sum 2 (for every split point 1..nv-1 that leaves two entries)
        for head in [1usize, 4, 8, 16, 32, 64].into_iter().filter(|h| *h + 2 <= nv) {
            let mut v = vec![0.0; nv];
            for x in v.iter_mut().take(head) {
                *x = 1.0 / head as f64;
            }
            v[nv - 1] = 0.5;
            v[nv - 2] = 0.5;
            ws.push((v.clone(), false));
            // same head, the tail adds 1e-3 only / a NaN / cancels exactly (valid)
            let mut w = v.clone();
            w[nv - 1] = 1e-3;
            w[nv - 2] = 0.0;
            ws.push((w, false));
            let mut w = v.clone();
            w[nv - 1] = f64::NAN;
            w[nv - 2] = 0.0;
            ws.push((w, false));
            let mut w = v.clone();
            w[nv - 1] = 0.25;
            w[nv - 2] = -0.25;
            ws.push((w, true));
            // head sums to 1/2, tail supplies the other half (valid)
            let mut w = v.clone();
            for x in w.iter_mut().take(head) {
                *x = 0.5 / head as f64;
            }
            w[nv - 1] = 0.25;
            w[nv - 2] = 0.25;
            ws.push((w, true));
        }
        ws.push((vec![1.0 / (nv - 1) as f64; nv - 1], false));
        ws.push((vec![1.0 / (nv + 1) as f64; nv + 1], false));
        ws.push((vec![1.0 / 8.0; 8], false).clone());
        if nv == 8 {
            ws.pop();
        }
        for q in [0usize, 1, ns, 1 + ns, 2 * ns] {
            let mut e = base.clone();
            let mut reference: Vec<Vec<f64>> = vec![eq.clone(); 1 + 2 * ns];
            let mut hist: Vec<Value> = Vec::new();
            for (w, valid) in &ws {
                calls += 1;
                let a = WAct { quantity: q, w: w.clone(), valid: *valid, reload: 0 };
                hist.push(json!({"quantity": q, "weights": w.iter().map(|x| format!("{:e}", x)).collect::<Vec<_>>(), "valid": valid}));
                let r = catch(|| apply_real(&mut e, ns, &a));
                rep.cmp(1);
                let what = match r {
                    Err(p) => Some(("panic", format!("panic: {}", p))),
                    Ok(Ok(())) if !*valid => Some(("invalid-accepted", format!("invalid weights accepted (sum {})", w.iter().sum::<f64>()))),
                    Ok(Err(er)) if *valid => Some(("valid-rejected", format!("valid weights (sum {}) rejected: {}", w.iter().sum::<f64>(), er))),
                    Ok(Ok(())) => {
                        reference[q] = w.clone();
                        None
                    }
                    Ok(Err(_)) => None,
                };
                let what = what.or_else(|| getters_match(&e, ns, &reference).map(|m| ("getter-mismatch", m)));
                if let Some((k, m)) = what {
                    rep.violation(format!("many-voices-{}", k), format!("{} voices, quantity {}: {}", nv, q, m), json!({"voices": nv, "voice": cfg.describe(), "history": hist, "labels": utt}));
                    break;
                }
            }
            // synthesis after the history equals a fresh engine given only the effective weights
            if q == 1 {
                let mut fresh = base.clone();
                let ok = apply_real(&mut fresh, ns, &WAct { quantity: q, w: reference[q].clone(), valid: true, reload: 0 }).is_ok();
                rep.cmp(1);
                match (synth(&e, &utt), synth(&fresh, &utt)) {
                    (Ok(a), Ok(b)) if ok && bits_eq(&a, &b) => {}
                    _ => rep.violation("many-voices-stale-or-leaked-weights", format!("{} voices: waveform after the history differs from a fresh engine with the effective weights", nv), json!({"voices": nv, "voice": cfg.describe(), "history": hist, "labels": utt})),
                }
            }
        }
    }
    rep.eval(calls);
    rep.transitions.fetch_add(calls, Ordering::Relaxed);
    rep.note("many_voices", json!({"weight_update_calls": calls}));
}

fn voiceset_part(rep: &Report) {
    let cfg = GenCfg { gv: true, nstate: 2, ..GenCfg::default() };
    let a: Voice = load_voice_bytes(&cfg.bytes()).expect("generated voice");
    // one-field differences (the property's list), built on the public Voice fields
    let mut diffs: Vec<(&str, Voice)> = Vec::new();
    let mut extra_pairs: Vec<(Voice, Voice)> = Vec::new();
    let mut v = a.clone();
    v.metadata.sampling_frequency += 1;
    diffs.push(("sampling rate", v));
    let mut v = a.clone();
    v.metadata.frame_period += 1;
    diffs.push(("frame period", v));
    let mut v = a.clone();
    v.metadata.num_states += 1;
    diffs.push(("states", v));
    // the remaining entries of the global section: version strings, label format, GV-off contexts, stream names
    let mut v = a.clone();
    v.metadata.hts_voice_version.push_str(".1");
    diffs.push(("HTS_VOICE_VERSION", v));
    let mut v = a.clone();
    v.metadata.fullcontext_format.push_str("_x");
    diffs.push(("FULLCONTEXT_FORMAT", v));
    let mut v = a.clone();
    v.metadata.fullcontext_version.push_str(".1");
    diffs.push(("FULLCONTEXT_VERSION", v));
    let mut v = a.clone();
    v.metadata.gv_off_context = jbonsai::model::voice::question::Question::parse(&["*-sil+*"]).expect("question");
    diffs.push(("GV_OFF_CONTEXT", v));
    let mut v = a.clone();
    v.metadata.stream_type[0].push('2');
    diffs.push(("STREAM_TYPE name", v));
    let mut v = a.clone();
    v.metadata.num_streams -= 1;
    v.stream_models.pop();
    v.metadata.stream_type.pop();
    diffs.push(("streams", v));
    // a voice that contradicts its own header: one stream model fewer than NUM_STREAMS says (hand-built voices: the
    // fields are public)
    let mut v = a.clone();
    v.stream_models.pop();
    diffs.push(("stream models fewer than the header's stream count", v));
    for si in 0..a.stream_models.len() {
        let mut v = a.clone();
        v.stream_models[si].metadata.vector_length += 1;
        diffs.push(("vector length", v));
        let mut v = a.clone();
        v.stream_models[si].metadata.num_windows += 1;
        diffs.push(("windows count", v));
        let mut v = a.clone();
        v.stream_models[si].metadata.is_msd = !v.stream_models[si].metadata.is_msd;
        diffs.push(("MSD flag", v));
        let mut v = a.clone();
        v.stream_models[si].metadata.use_gv = !v.stream_models[si].metadata.use_gv;
        diffs.push(("GV flag", v));
        let mut v = a.clone();
        v.stream_models[si].metadata.option.push("ALPHA=0.1".into());
        diffs.push(("option", v));
    }
    // two fields of one stream at once, incl. the pairs whose PDF width stays the same (vector length x windows constant)
    for si in 0..a.stream_models.len() {
        let muts: Vec<(&str, Box<dyn Fn(&mut Voice)>)> = vec![
            ("vector length", Box::new(move |v: &mut Voice| v.stream_models[si].metadata.vector_length += 1)),
            ("windows count", Box::new(move |v: &mut Voice| v.stream_models[si].metadata.num_windows += 1)),
            ("MSD flag", Box::new(move |v: &mut Voice| v.stream_models[si].metadata.is_msd = !v.stream_models[si].metadata.is_msd)),
            ("GV flag", Box::new(move |v: &mut Voice| v.stream_models[si].metadata.use_gv = !v.stream_models[si].metadata.use_gv)),
            ("option", Box::new(move |v: &mut Voice| v.stream_models[si].metadata.option.push("ALPHA=0.1".into()))),
        ];
        for i in 0..muts.len() {
            for j in i + 1..muts.len() {
                let mut v = a.clone();
                (muts[i].1)(&mut v);
                (muts[j].1)(&mut v);
                diffs.push(("two fields of one stream", v));
            }
        }
        let (vl, nw) = (a.stream_models[si].metadata.vector_length, a.stream_models[si].metadata.num_windows);
        if nw > 1 {
            for gv_off in [false, true] {
                let mut v = a.clone();
                v.stream_models[si].metadata.vector_length = vl * nw;
                v.stream_models[si].metadata.num_windows = 1;
                if gv_off {
                    v.stream_models[si].metadata.use_gv = false;
                }
                diffs.push(("vector length x windows with the same product", v.clone()));
                if gv_off {
                    // and against a base that has GV off too (then only the two swapped fields differ)
                    let mut base2 = a.clone();
                    base2.stream_models[si].metadata.use_gv = false;
                    extra_pairs.push((base2, v));
                }
            }
        }
    }
    // the same differences produced by real files
    for (name, c2) in [
        ("sampling rate (file)", GenCfg { rate: 8000, ..cfg.clone() }),
        ("frame period (file)", GenCfg { fperiod: 40, ..cfg.clone() }),
        ("states (file)", GenCfg { nstate: 3, ..cfg.clone() }),
        ("streams (file)", GenCfg { ns: 2, ..cfg.clone() }),
        ("vector length (file)", GenCfg { order: 5, ..cfg.clone() }),
        ("windows count (file)", GenCfg { wset: 1, ..cfg.clone() }),
        ("GV flag (file)", GenCfg { gv: false, ..cfg.clone() }),
        ("option (file)", GenCfg { alpha: 0.3, ..cfg.clone() }),
    ] {
        diffs.push((name, load_voice_bytes(&c2.bytes()).expect("generated voice")));
    }
    let a = Arc::new(a);
    let same = Arc::new(load_voice_bytes(&GenCfg { variant: 1, ..cfg.clone() }.bytes()).expect("variant"));
    let check = |list: Vec<Arc<Voice>>, want_ok: bool, what: String| {
        rep.eval(1);
        rep.distinct(fnv(what.as_bytes()));
        let n = list.len();
        match catch(|| VoiceSet::new(list).map(|_| ())) {
            Err(p) => rep.violation(format!("voiceset-panic@{}", site_of(&p)), format!("VoiceSet::new panics on {}: {}", what, p), json!({"list": what})),
            Ok(r) => {
                if r.is_ok() != want_ok {
                    rep.violation(if want_ok { "compatible-rejected" } else { "incompatible-accepted" }, format!("VoiceSet::new on {} ({} voices) returned {}", what, n, if r.is_ok() { "Ok" } else { "Err" }), json!({"list": what}));
                }
            }
        }
    };
    check(vec![], false, "empty list".into());
    check(vec![a.clone()], true, "[A]".into());
    check(vec![a.clone(), a.clone()], true, "[A, A]".into());
    check(vec![a.clone(), same.clone()], true, "[A, A'] differing only in trees/PDFs".into());
    check(vec![a.clone(), same.clone(), a.clone()], true, "[A, A', A]".into());
    for (x, y) in extra_pairs {
        let (x, y) = (Arc::new(x), Arc::new(y));
        check(vec![x.clone(), y.clone()], false, "[B, B'] without GV, vector length x windows swapped with the same product".into());
        check(vec![y.clone(), x.clone()], false, "[B', B] without GV, vector length x windows swapped with the same product".into());
        check(vec![x.clone(), x.clone(), y.clone()], false, "[B, B, B'] without GV, vector length x windows swapped with the same product".into());
    }
    for (name, d) in diffs {
        let d = Arc::new(d);
        check(vec![a.clone(), d.clone()], false, format!("[A, A'({})]", name));
        check(vec![d.clone(), a.clone()], false, format!("[A'({}), A]", name));
        check(vec![a.clone(), same.clone(), d.clone()], false, format!("[A, A, A'({})]", name));
        check(vec![a.clone(), d.clone(), same.clone()], false, format!("[A, A'({}), A]", name));
        check(vec![d.clone(), a.clone(), same.clone()], false, format!("[A'({}), A, A]", name));
        check(vec![d.clone(), d.clone()], true, format!("[A'({}), A'({})]", name, name));
        // four voices: the odd one in every position, and every split into two identical pairs
        for pos in 0..4 {
            let mut l = vec![a.clone(), same.clone(), a.clone(), same.clone()];
            l[pos] = d.clone();
            check(l, false, format!("4 voices, A'({}) at position {}", name, pos));
        }
        check(vec![a.clone(), a.clone(), d.clone(), d.clone()], false, format!("[A, A, A'({}), A'({})]", name, name));
        check(vec![a.clone(), d.clone(), a.clone(), d.clone()], false, format!("[A, A'({}), A, A'({})]", name, name));
        check(vec![a.clone(), d.clone(), d.clone(), a.clone()], false, format!("[A, A'({}), A'({}), A]", name, name));
    }
}

pub fn run(tier: Tier) -> i32 {
    let rep: &'static Report = Box::leak(Box::new(Report::new("C19", tier, "model_checking")));
    let monitor = Arc::new(HangMonitor::start(rep, "C19 weight history"));
    let depth: u8 = tier.pick(2, 3);
    rep.set_rule("HIST (stateright BFS): all histories over {set_duration/set_parameter(i)/set_gv(i) with weight vectors from {5 valid incl. vertices and (1.5,-.5); invalid: wrong lengths, sum off by 1e-6 and 0.1, NaN, (inf,-inf), large magnitudes, empty}; load_model of the condition in use with 1, 2 or 3 voices (equal weights of the new count must then be in force)} to the depth bound on real engines starting with 2 and 3 voices, getters and synthesis (vs a fresh engine given only the reference's effective weights) after every call; states merged by (depth, Debug rendering of the real InterporationWeight); plus one fixed history per quantity on sets of 5..17 voices (thorough 65) with weight vectors whose validity is decided by their last entries; plus SCOPE: VoiceSet::new on [], and on every list of 2-4 voices where one voice (in every position) or an identical pair differs in exactly one metadata field (sampling rate, frame period, states, streams, version strings, label format, GV-off contexts, stream name, vector length, windows count, MSD flag, GV flag, option; in every position), in two fields of one stream (incl. vector length x windows with the same product, with and without GV) or in none; non-trivial = every state after at least one update");
    rep.assume("weight sums strictly between 1e-15 and 1e-6 away from 1 are unspecified by the property and not in the alphabet");
    voiceset_part(rep);
    many_voices_part(rep, tier);
    unwritable_stderr_part(rep, &["voiceset-rejection", "weights-rejection"]);
    let corpus = labels::corpus();
    let utt = vec![corpus[41].clone(), corpus[42].clone()];
    for (cfg, nv) in [(GenCfg { gv: true, nstate: 2, ..GenCfg::default() }, 2usize), (GenCfg { gv: false, ns: 2, nstate: 1, stage: 1, order: 4, ..GenCfg::default() }, 3usize)] {
        let voices: Vec<Arc<Voice>> = (0..nv).map(|v| Arc::new(load_voice_bytes(&GenCfg { variant: v as u32, ..cfg.clone() }.bytes()).expect("generated voice"))).collect();
        let pool: Vec<Arc<Voice>> = (0..3).map(|v| Arc::new(load_voice_bytes(&GenCfg { variant: v as u32, ..cfg.clone() }.bytes()).expect("generated voice"))).collect();
        let fresh: Vec<Option<Engine>> = (0..=3).map(|k| if k == 0 { None } else { Some(engine_from_voices(pool[..k].to_vec()).expect("voice set")) }).collect();
        let base = engine_from_voices(voices).expect("voice set");
        let ns = cfg.ns;
        let mut acts: Vec<Vec<WAct>> = vec![vec![]; 4];
        for k in 1..=3 {
            for q in 0..1 + 2 * ns {
                for (w, valid) in weight_alphabet(k) {
                    acts[k].push(WAct { quantity: q, w, valid, reload: 0 });
                }
            }
        }
        let mut counts = Vec::new();
        for threads in [nthreads(), (nthreads() / 2).max(2)] {
            let d = depth;
            let model = WModel { base: base.clone(), fresh: fresh.clone(), pool: pool.clone(), found: Default::default(), ns, nv, acts: acts.clone(), depth: d, utt: utt.clone(), transitions: Default::default(), synths: Default::default(), rejected: Default::default(), checked_last: Default::default(), monitor: monitor.clone() };
            let checker = model.checker().threads(threads).target_max_depth(d as usize + 2).spawn_bfs().join();
            counts.push(checker.unique_state_count());
            rep.guard(checker.model().checked_last.load(Ordering::Relaxed) > 0, "invariant never evaluated on states at the depth bound");
            if threads == nthreads() {
                let tr = checker.model().transitions.load(Ordering::Relaxed);
                rep.states.fetch_add(checker.unique_state_count() as u64, Ordering::Relaxed);
                rep.transitions.fetch_add(tr, Ordering::Relaxed);
                rep.traces.fetch_add(tr, Ordering::Relaxed);
                rep.eval(tr);
                rep.nontrivial.fetch_add(checker.unique_state_count() as u64 - 1, Ordering::Relaxed);
                rep.note(&format!("bounds_{}voices", nv), json!({"actions_per_state": [acts[1].len() + 3, acts[2].len() + 3, acts[3].len() + 3], "depth": d, "unique_states": checker.unique_state_count(), "transitions": tr, "syntheses": checker.model().synths.load(Ordering::Relaxed), "rejected_updates": checker.model().rejected.load(Ordering::Relaxed), "voice": cfg.describe()}));
                let found = checker.model().found.lock().unwrap().clone();
                for (actions, what, nv) in found {
                    let key = if what.contains("load_model") {
                        "reload"
                    } else if what.contains("accepted") {
                        "invalid-accepted"
                    } else if what.contains("rejected:") {
                        "valid-rejected"
                    } else if what.contains("waveform") {
                        "stale-or-leaked-weights"
                    } else if what.contains("panic") {
                        "panic"
                    } else {
                        "getter-mismatch"
                    };
                    let hist: Vec<Value> = actions.iter().map(|a| if a.reload > 0 { json!({"load_model_with_voices": a.reload}) } else { json!({"quantity": a.quantity, "weights": a.w.iter().map(|x| format!("{:e}", x)).collect::<Vec<_>>(), "valid": a.valid}) }).collect();
                    rep.violation(key, format!("{} ({} voices) after history {:?}", what, nv, actions), json!({"voices": nv, "voice": cfg.describe(), "history": hist, "labels": utt}));
                }
                rep.sample(json!({"voices": nv, "history": [{"quantity": 0, "weights": [0.5, 0.6], "valid": false}, {"quantity": 1, "weights": [1.0, 0.0], "valid": true}]}));
                rep.sample(json!({"voices": nv, "history": [{"quantity": 1, "weights": [0.3, 0.7], "valid": true}, {"load_model_with_voices": 1}]}));
            }
        }
        if rep.violation_count() == 0 && counts[0] != counts[1] {
            crate::elog!("MACHINERY: state counts differ between thread counts: {:?}", counts);
            return 2;
        }
    }
    rep.sample_last(json!({"voiceset": "[A'(option (file)), A, A]", "expect": "Err"}));
    rep.guard(rep.states.load(Ordering::Relaxed) > 50, "too few states");
    rep.finish_ref()
}
