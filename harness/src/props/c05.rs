//! C05 – Generated trajectories are the maximum-likelihood solution (MLPG).
//! SCOPE: full product of per-state (mean, variance, duration, voicing) alphabets × window sets
//! × vector lengths on the real MlpgAdjust, compared with a dense Gaussian-elimination solve.

use crate::common::*;
use crate::gen::voice::window_set;
use crate::oracle::dense::{mlpg_gradient_residual, mlpg_reference, NODATA};
use jbonsai::mlpg_adjust::MlpgAdjust;
use jbonsai::model::voice::window::{Window, Windows};
use jbonsai::model::{MeanVari, ModelStream, StreamParameter};
use serde_json::json;
use std::sync::atomic::{AtomicU64, Ordering};

const MEANS: [f64; 3] = [-1.0, 0.3, 2.0];
const VARS: [f64; 3] = [0.05, 1.0, 3.0];

#[derive(Clone, Copy, Debug)]
struct Sym {
    mean: usize,
    var: usize,
    dur: usize,
    voiced: bool,
}

fn state_params(sym: Sym, si: usize, nwin: usize, vlen: usize, tie_last: bool) -> Vec<(f64, f64)> {
    let mut p = vec![(0.0, 0.0); nwin * vlen];
    for w in 0..nwin {
        for k in 0..vlen {
            let m = MEANS[sym.mean];
            let v = VARS[sym.var];
            // distinct parameters per component and window; dynamic means non-zero
            let mean = if w == 0 { m * (1.0 - 1.7 * k as f64) + 0.3 * k as f64 } else { 0.1 * m - 0.05 * w as f64 + 0.02 * (si % 3) as f64 + 0.07 * k as f64 };
            // `tie_last`: the last window's variances are the same for every component while the other windows' differ
            // (the matrices of two components then agree in one block only)
            let var = if w == 0 { v * (1.0 + 0.5 * k as f64) } else if tie_last && w == nwin - 1 { v * 0.5 } else { v * 0.5 * (1.0 + 0.25 * k as f64) };
            p[vlen * w + k] = (mean, var);
        }
    }
    p
}

struct Stats {
    island1: AtomicU64,
    island2: AtomicU64,
    all_unvoiced: AtomicU64,
    ends_unvoiced: AtomicU64,
    short_island_wide: AtomicU64,
    worst: std::sync::Mutex<f64>,
}

fn run_case(syms: &[Sym], wset: usize, vlen: usize, rep: &Report, st: &Stats) {
    let wins = window_set(wset);
    let nwin = wins.len();
    let tie_last = vlen >= 2 && nwin >= 2 && (syms.len() + wset + syms[0].mean) % 3 == 0;
    let states: Vec<(Vec<(f64, f64)>, bool)> = syms.iter().enumerate().map(|(i, s)| (state_params(*s, i, nwin, vlen, tie_last), s.voiced)).collect();
    let durations: Vec<usize> = syms.iter().map(|s| s.dur).collect();
    let sp = StreamParameter::new(
        states
            .iter()
            .map(|(p, v)| (p.iter().map(|(m, va)| MeanVari(*m, *va)).collect(), if *v { 0.9 } else { 0.1 }))
            .collect(),
    );
    let windows = Windows::new(wins.iter().map(|w| Window::new(w.clone())).collect());
    // every fourth case gets its window set the way an application that caches a parsed voice gets it: through the
    // public Serialize / Deserialize implementations (derived data that is not serialized must be rebuilt)
    let via_serde = (syms.len() + wset + vlen + syms[0].dur + syms[syms.len() - 1].dur) % 4 == 0;
    let windows = if via_serde {
        match serde_json::to_string(&windows).ok().and_then(|t| serde_json::from_str::<Windows>(&t).ok()) {
            Some(w) => w,
            None => {
                rep.violation("windows-serde", "a window set does not survive its own Serialize/Deserialize round trip", json!({"window_set": wset}));
                return;
            }
        }
    } else {
        windows
    };
    let adjust = match catch(|| MlpgAdjust::new(1.0, 0.5, ModelStream { vector_length: vlen, stream: sp, gv: None, windows: &windows })) {
        Ok(a) => a,
        Err(p) => {
            rep.violation(format!("panic@{}", site_of(&p)), p, json!({"window_set": wset}));
            return;
        }
    };
    let got = catch(|| adjust.create(&durations));
    rep.eval(1);
    // the same object asked again with other durations (reversed, and one frame more on the first state): what an
    // earlier call did must not matter
    if (syms.len() + wset + syms[0].dur) % 5 == 0 {
        let mut d2: Vec<usize> = durations.iter().rev().cloned().collect();
        d2[0] += 1;
        let want2 = mlpg_reference(&states, &d2, &wins, vlen);
        rep.cmp(1);
        match catch(|| adjust.create(&d2)) {
            Err(p) => {
                rep.violation(format!("panic@{}", site_of(&p)), format!("second create() on the same MlpgAdjust: {}", p), json!({"window_set": wset, "durations_first": durations, "durations_second": d2}));
                return;
            }
            Ok(g2) => {
                let scale = want2.iter().flatten().filter(|x| **x != NODATA).fold(1.0f64, |a, b| a.max(b.abs()));
                let ok = g2.len() == want2.len() && g2.iter().zip(&want2).all(|(a, b)| a.iter().zip(b).all(|(x, y)| if *y == NODATA { x.to_bits() == NODATA.to_bits() } else { (x - y).abs() <= 1e-9 * scale }));
                if !ok {
                    rep.violation("second-create", "a second create() on the same MlpgAdjust with other durations is not the ML solution for those durations (state left over from the first call)", json!({"window_set": wset, "windows": wins, "vector_length": vlen, "durations_first": durations, "durations_second": d2,
                        "states": states.iter().map(|(p, v)| json!({"params_mean_var": p, "msd": if *v {0.9} else {0.1}})).collect::<Vec<_>>()}));
                    return;
                }
            }
        }
    }
    let replay = || {
        json!({"window_set": wset, "windows": wins, "windows_through_serde_round_trip": via_serde, "vector_length": vlen, "threshold": 0.5,
            "states": states.iter().zip(&durations).map(|((p, v), d)| json!({"params_mean_var": p, "msd": if *v {0.9} else {0.1}, "duration": d})).collect::<Vec<_>>()})
    };
    let got = match got {
        Err(p) => {
            rep.violation(format!("panic@{}", site_of(&p)), p, replay());
            return;
        }
        Ok(g) => g,
    };
    if rep.evaluations.load(Ordering::Relaxed) % 16 == 0 {
        rep.outcome(hash_f64s(&got.iter().flatten().cloned().collect::<Vec<f64>>()));
    }
    let want = mlpg_reference(&states, &durations, &wins, vlen);
    let total: usize = durations.iter().sum();
    if got.len() != total || got.iter().any(|f| f.len() != vlen) {
        rep.violation("shape", format!("trajectory has {} frames, want sum of durations {}", got.len(), total), replay());
        return;
    }
    let scale = want.iter().flatten().filter(|x| **x != NODATA).fold(1.0f64, |a, b| a.max(b.abs()));
    let mut worst = 0.0f64;
    for (t, (g, w)) in got.iter().zip(&want).enumerate() {
        for k in 0..vlen {
            rep.cmp(1);
            if w[k] == NODATA {
                if g[k].to_bits() != NODATA.to_bits() {
                    rep.violation("unvoiced-marker", format!("frame {} comp {} is unvoiced but carries {} instead of the no-data marker", t, k, g[k]), replay());
                    return;
                }
            } else {
                let err = (g[k] - w[k]).abs() / scale;
                worst = worst.max(err);
                if !(err <= 1e-9) {
                    rep.violation("not-ml-solution", format!("frame {} comp {}: got {} want {} (dense solve), rel err {:e}", t, k, g[k], w[k], err), replay());
                    return;
                }
            }
        }
    }
    {
        let mut w = st.worst.lock().unwrap();
        if worst > *w {
            *w = worst;
        }
    }
    // non-vacuity statistics
    let mut frames = Vec::new();
    for s in syms {
        for _ in 0..s.dur {
            frames.push(s.voiced);
        }
    }
    let maxw = wins.iter().map(|w| w.len()).max().unwrap();
    let mut i = 0;
    let mut any = false;
    while i < frames.len() {
        if frames[i] {
            let a = i;
            while i < frames.len() && frames[i] {
                i += 1;
            }
            any = true;
            match i - a {
                1 => {
                    st.island1.fetch_add(1, Ordering::Relaxed);
                }
                2 => {
                    st.island2.fetch_add(1, Ordering::Relaxed);
                }
                _ => {}
            }
            if maxw == 5 && i - a < 5 {
                st.short_island_wide.fetch_add(1, Ordering::Relaxed);
            }
        } else {
            i += 1;
        }
    }
    if !any {
        st.all_unvoiced.fetch_add(1, Ordering::Relaxed);
    }
    if any && !frames[0] && !frames[frames.len() - 1] {
        st.ends_unvoiced.fetch_add(1, Ordering::Relaxed);
    }
}


/// States of 1..97 frames each, symbols cycling through the full alphabet, filling the given runs.
fn long_case(runs: &[(bool, usize)], nwin: usize, vlen: usize) -> (Vec<(Vec<(f64, f64)>, bool)>, Vec<usize>) {
    let mut states = Vec::new();
    let mut durations = Vec::new();
    let mut si = 0usize;
    for (voiced, len) in runs {
        let mut left = *len;
        while left > 0 {
            let d = (1 + (si * 37) % 97).min(left);
            let sym = Sym { mean: si % 3, var: (si / 3) % 3, dur: d, voiced: *voiced };
            states.push((state_params(sym, si, nwin, vlen, false), *voiced));
            durations.push(d);
            left -= d;
            si += 1;
        }
    }
    (states, durations)
}

/// Voiced runs far longer than any enumerated case (lengths around 2^16 and 2^17): the dense solve is out of reach there,
/// so optimality is tested through the gradient of the likelihood at the returned trajectory, frame by frame.
fn long_runs(rep: &Report, tier: Tier) -> u64 {
    // (window set, vector length, runs as (voiced, frames))
    let mut cases: Vec<(usize, usize, Vec<(bool, usize)>)> = vec![
        (2, 1, vec![(true, 70000)]),
        (3, 2, vec![(false, 3), (true, 65536 + 5), (false, 2), (true, 131072 + 7)]),
        (1, 1, vec![(true, 65535), (false, 1), (true, 65536), (false, 1), (true, 65537)]),
        (8, 1, vec![(false, 1), (true, 66000), (false, 1)]),
    ];
    if tier == Tier::Thorough {
        cases.push((2, 1, vec![(true, (1 << 20) + 3)]));
        cases.push((5, 2, vec![(true, 262144 + 1), (false, 2), (true, 300000)]));
    }
    let n = cases.len() as u64;
    rep.par_for(cases.len(), 1, "C05 long runs", |ci| {
        let (wset, vlen, runs) = &cases[ci];
        let wins = window_set(*wset);
        let nwin = wins.len();
        let (states, durations) = long_case(runs, nwin, *vlen);
        let sp = StreamParameter::new(states.iter().map(|(p, v)| (p.iter().map(|(m, va)| MeanVari(*m, *va)).collect(), if *v { 0.9 } else { 0.1 })).collect());
        let windows = Windows::new(wins.iter().map(|w| Window::new(w.clone())).collect());
        let desc = json!({"long_runs": runs.iter().map(|(v, l)| json!({"voiced": v, "frames": l})).collect::<Vec<_>>(), "window_set": wset, "windows": wins, "vector_length": vlen,
            "states": "run split into states of 1 + (37 i mod 97) frames, symbol i cycling through means x variances"});
        let got = match catch(|| MlpgAdjust::new(1.0, 0.5, ModelStream { vector_length: *vlen, stream: sp, gv: None, windows: &windows }).create(&durations)) {
            Ok(g) => g,
            Err(p) => {
                rep.violation(format!("panic@{}", site_of(&p)), p, desc);
                return;
            }
        };
        rep.eval(1);
        rep.cmp((got.len() * vlen) as u64);
        match mlpg_gradient_residual(&states, &durations, &wins, *vlen, &got) {
            Err(e) => rep.violation("long-run-shape", format!("long voiced runs: {}", e), desc),
            Ok((worst, frame, comp)) => {
                if !(worst <= 1e-7) {
                    rep.violation("long-run-not-ml-solution", format!("long voiced runs: the likelihood gradient at the returned trajectory does not vanish at frame {} comp {} (relative size {:e}): not the ML solution", frame, comp, worst), desc);
                    return;
                }
                // the oracle must see a small local error at a frame deep inside a run
                let mut bent = got.clone();
                let at = got.iter().position(|f| f[0].to_bits() != NODATA.to_bits()).unwrap_or(0) + 40000;
                bent[at][0] += 1e-3;
                let seen = matches!(mlpg_gradient_residual(&states, &durations, &wins, *vlen, &bent), Ok((w, _, _)) if w > 1e-5);
                rep.guard(seen, "gradient oracle blind to a 1e-3 error deep inside a long run");
            }
        }
    });
    n
}

fn alphabet(durs: &[usize]) -> Vec<Sym> {
    let mut a = Vec::new();
    for voiced in [true, false] {
        for &dur in durs {
            for var in 0..3 {
                for mean in 0..3 {
                    a.push(Sym { mean, var, dur, voiced });
                }
            }
        }
    }
    a
}

pub fn run(tier: Tier) -> i32 {
    let rep = Report::new("C05", tier, "model_checking");
    rep.set_rule("SCOPE: full product over 1..N states of per-state symbols (mean in 3 values) x (variance in {0.05,1,3}) x (duration in {1,2,3}) x {voiced, unvoiced}, for each of 16 window sets {static; +delta; +delta+delta-delta; width-5; width-3 delta with width-5 delta-delta; width-5 delta with width-3 delta-delta; even lengths 2 and 4; backward difference only; four windows; a zero-padded static window with and without dynamic windows; static windows with a coefficient other than 1: [2], [0.5] + delta, [-1] + two dynamic windows, [0,2,0] + delta} and vector lengths {1,2}, on the real MlpgAdjust::create (every fourth case with a window set that went through its Serialize/Deserialize round trip; every fifth case followed by a second create() on the same object with other durations); oracle = dense Gaussian elimination of the definition, rel. tolerance 1e-9; plus single instances with voiced runs of 65535..131079 frames (thorough: up to 2^20) whose optimality is tested through the likelihood gradient at every frame (relative size <= 1e-7); distinct = distinct (state sequence, window set, vector length); non-trivial = every case (each is compared frame by frame)");
    rep.assume("variances within [0.05,3]; state counts/durations beyond the stated bound are covered only by the periodic families of the thorough tier");
    let st = Stats { island1: Default::default(), island2: Default::default(), all_unvoiced: Default::default(), ends_unvoiced: Default::default(), short_island_wide: Default::default(), worst: std::sync::Mutex::new(0.0) };
    let full = alphabet(&[1, 2, 3]);
    let max_states = tier.pick(3usize, 4usize);
    let mut cases = 0u64;
    for n in 1..=max_states {
        let total = full.len().pow(n as u32);
        for wset in 0..crate::gen::voice::WINDOW_SETS {
            for vlen in [1usize, 2] {
                // vector length 2 doubles the work without new structure beyond the stride: restrict to n <= 3
                if vlen == 2 && n > 3 {
                    continue;
                }
                cases += total as u64;
                rep.par_for(total, 256, "C05 part 1", |code| {
                    let mut c = code;
                    let syms: Vec<Sym> = (0..n)
                        .map(|_| {
                            let s = full[c % full.len()];
                            c /= full.len();
                            s
                        })
                        .collect();
                    run_case(&syms, wset, vlen, &rep, &st);
                });
            }
        }
    }
    {
        // one state more than the full product, on a 16-symbol alphabet (2 means x 2 variances x 2 durations x voicing)
        let mut red16 = Vec::new();
        for voiced in [true, false] {
            for dur in [1usize, 2] {
                for var in [0usize, 2] {
                    for mean in [0usize, 2] {
                        red16.push(Sym { mean, var, dur, voiced });
                    }
                }
            }
        }
        let n = max_states + 1;
        let total = red16.len().pow(n as u32);
        for wset in 0..crate::gen::voice::WINDOW_SETS {
            cases += total as u64;
            rep.par_for(total, 256, "C05 part 2", |code| {
                let mut c = code;
                let syms: Vec<Sym> = (0..n)
                    .map(|_| {
                        let s = red16[c % red16.len()];
                        c /= red16.len();
                        s
                    })
                    .collect();
                run_case(&syms, wset, 1, &rep, &st);
            });
        }
    }
    if tier == Tier::Thorough {
        // 5–6 states on a reduced alphabet
        let red: Vec<Sym> = vec![
            Sym { mean: 0, var: 0, dur: 1, voiced: true },
            Sym { mean: 2, var: 2, dur: 2, voiced: true },
            Sym { mean: 1, var: 1, dur: 1, voiced: false },
            Sym { mean: 2, var: 0, dur: 3, voiced: true },
            Sym { mean: 0, var: 1, dur: 2, voiced: false },
        ];
        for n in 5..=6usize {
            let total = red.len().pow(n as u32);
            for wset in 0..crate::gen::voice::WINDOW_SETS {
                for vlen in [1usize, 3, 4] {
                    cases += total as u64;
                    rep.par_for(total, 64, "C05 part 3", |code| {
                        let mut c = code;
                        let syms: Vec<Sym> = (0..n)
                            .map(|_| {
                                let s = red[c % red.len()];
                                c /= red.len();
                                s
                            })
                            .collect();
                        run_case(&syms, wset, vlen, &rep, &st);
                    });
                }
            }
        }
        // durations up to 8 on <= 3 states (means/vars reduced)
        let mut long = Vec::new();
        for voiced in [true, false] {
            for dur in 4..=8usize {
                for (mean, var) in [(0usize, 0usize), (2, 2)] {
                    long.push(Sym { mean, var, dur, voiced });
                }
            }
        }
        for n in 1..=3usize {
            let total = long.len().pow(n as u32);
            for wset in 0..crate::gen::voice::WINDOW_SETS {
                cases += total as u64;
                rep.par_for(total, 64, "C05 part 4", |code| {
                    let mut c = code;
                    let syms: Vec<Sym> = (0..n)
                        .map(|_| {
                            let s = long[c % long.len()];
                            c /= long.len();
                            s
                        })
                        .collect();
                    run_case(&syms, wset, 1, &rep, &st);
                });
            }
        }
        // periodic extensions of every 1..2-state pattern (and reduced 3-state) to 60 states
        let mut pats: Vec<Vec<Sym>> = Vec::new();
        for a in &full {
            pats.push(vec![*a]);
            for b in &full {
                pats.push(vec![*a, *b]);
            }
        }
        for a in &red {
            for b in &red {
                for c in &red {
                    pats.push(vec![*a, *b, *c]);
                }
            }
        }
        for wset in 0..crate::gen::voice::WINDOW_SETS {
            cases += pats.len() as u64;
            rep.par_for(pats.len(), 8, "C05 part 5", |i| {
                let syms: Vec<Sym> = (0..60).map(|k| pats[i][k % pats[i].len()]).collect();
                run_case(&syms, wset, 1, &rep, &st);
            });
        }
    }
    cases += long_runs(&rep, tier);
    rep.nontrivial.store(cases, Ordering::Relaxed);
    rep.states.store(cases, Ordering::Relaxed);
    rep.note("bounds", json!({"max_states_full_product": max_states, "per_state_alphabet": full.len(), "means": MEANS, "variances": VARS, "durations": [1,2,3], "window_sets": crate::gen::voice::WINDOW_SETS, "vector_lengths": [1,2],
        "worst_relative_error": *st.worst.lock().unwrap(),
        "islands_len1": st.island1.load(Ordering::Relaxed), "islands_len2": st.island2.load(Ordering::Relaxed), "all_unvoiced": st.all_unvoiced.load(Ordering::Relaxed),
        "unvoiced_both_ends": st.ends_unvoiced.load(Ordering::Relaxed), "width5_with_short_island": st.short_island_wide.load(Ordering::Relaxed)}));
    rep.sample(json!({"states": [{"mean": -1.0, "var": 0.05, "dur": 1, "voiced": true}], "window_set": 0, "vlen": 1}));
    rep.sample(json!({"states": [{"mean": 2.0, "var": 3.0, "dur": 3, "voiced": true}, {"mean": 0.3, "var": 1.0, "dur": 1, "voiced": false}, {"mean": -1.0, "var": 0.05, "dur": 2, "voiced": true}], "window_set": 3, "vlen": 2}));
    rep.sample_last(json!({"last_case": {"states": max_states, "symbol": format!("{:?}", full.last().unwrap()), "window_set": 3, "vlen": 1}}));
    rep.guard(st.island1.load(Ordering::Relaxed) > 0 && st.island2.load(Ordering::Relaxed) > 0, "no voiced island of length 1 or 2");
    rep.guard(st.all_unvoiced.load(Ordering::Relaxed) > 0, "no all-unvoiced case");
    rep.guard(st.ends_unvoiced.load(Ordering::Relaxed) > 0, "no case unvoiced at both ends");
    rep.guard(st.short_island_wide.load(Ordering::Relaxed) > 0, "no width-5 window with an island shorter than the window");
    rep.finish()
}

/// Re-run one recorded case from its literal inputs.
pub fn replay(v: &serde_json::Value) -> i32 {
    let wins: Vec<Vec<f64>> = v["windows"].as_array().cloned().unwrap_or_default().iter().map(|w| w.as_array().cloned().unwrap_or_default().iter().filter_map(|x| x.as_f64()).collect()).collect();
    let vlen = v["vector_length"].as_u64().unwrap_or(1) as usize;
    let thr = v["threshold"].as_f64().unwrap_or(0.5);
    if let Some(runs) = v["long_runs"].as_array() {
        let runs: Vec<(bool, usize)> = runs.iter().map(|r| (r["voiced"].as_bool().unwrap_or(true), r["frames"].as_u64().unwrap_or(1) as usize)).collect();
        let (states, durations) = long_case(&runs, wins.len(), vlen);
        let sp = StreamParameter::new(states.iter().map(|(p, v)| (p.iter().map(|(m, va)| MeanVari(*m, *va)).collect(), if *v { 0.9 } else { 0.1 })).collect());
        let windows = Windows::new(wins.iter().map(|w| Window::new(w.clone())).collect());
        let got = catch(|| MlpgAdjust::new(1.0, 0.5, ModelStream { vector_length: vlen, stream: sp, gv: None, windows: &windows }).create(&durations));
        let res = got.and_then(|g| mlpg_gradient_residual(&states, &durations, &wins, vlen, &g));
        println!("long runs {:?}: likelihood gradient at the returned trajectory (worst relative size, frame, component) = {:?}", runs, res);
        let ok = matches!(res, Ok((w, _, _)) if w <= 1e-7);
        println!("{}", if ok { "replay: holds" } else { "replay: VIOLATED" });
        return !ok as i32;
    }
    let mut states: Vec<(Vec<(f64, f64)>, bool)> = Vec::new();
    let mut durations = Vec::new();
    let mut raw = Vec::new();
    for s in v["states"].as_array().cloned().unwrap_or_default() {
        let p: Vec<(f64, f64)> = s["params_mean_var"].as_array().cloned().unwrap_or_default().iter().map(|x| (x[0].as_f64().unwrap_or(0.0), x[1].as_f64().unwrap_or(1.0))).collect();
        let msd = s["msd"].as_f64().unwrap_or(1.0);
        states.push((p.clone(), msd > thr));
        raw.push((p.iter().map(|(m, va)| MeanVari(*m, *va)).collect::<Vec<_>>(), msd));
        durations.push(s["duration"].as_u64().unwrap_or(1) as usize);
    }
    let windows = Windows::new(wins.iter().map(|w| Window::new(w.clone())).collect());
    let windows = if v["windows_through_serde_round_trip"].as_bool() == Some(true) { serde_json::from_str::<Windows>(&serde_json::to_string(&windows).unwrap()).unwrap() } else { windows };
    let got = catch(|| MlpgAdjust::new(1.0, thr, ModelStream { vector_length: vlen, stream: StreamParameter::new(raw), gv: None, windows: &windows }).create(&durations));
    let want = mlpg_reference(&states, &durations, &wins, vlen);
    println!("dense reference: {:?}", want);
    match got {
        Err(p) => {
            println!("MlpgAdjust::create panics: {}", p);
            1
        }
        Ok(g) => {
            println!("MlpgAdjust::create:  {:?}", g);
            let scale = want.iter().flatten().filter(|x| **x != NODATA).fold(1.0f64, |a, b| a.max(b.abs()));
            let ok = g.len() == want.len() && g.iter().zip(&want).all(|(a, b)| a.iter().zip(b).all(|(x, y)| if *y == NODATA { x.to_bits() == NODATA.to_bits() } else { (x - y).abs() <= 1e-9 * scale }));
            println!("{}", if ok { "replay: holds" } else { "replay: VIOLATED" });
            !ok as i32
        }
    }
}
