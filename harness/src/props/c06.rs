//! C06 – The mel-cepstral synthesis filter realises the model spectrum (also hosts the shared
//! pulse-response probe used by C14).
//! SCOPE: explicit lattice of cepstra × orders × alpha; oracle = DFT of the pulse response vs the
//! closed-form warped-cosine series.

use crate::common::*;
use crate::oracle::dsp::*;
use jbonsai::vocoder::Vocoder;
use serde_json::json;
use std::sync::atomic::{AtomicU64, Ordering};
use std::sync::Mutex;

/// Pulse responses of frames 1.. of a stationary run: F0 = 20 Hz, frame = T0 samples, so each frame
/// holds exactly one pulse at its first sample. Returns (per-frame responses / sqrt(T0), rate used, tail).
pub fn pulse_frames(nmcp: usize, alpha: f64, beta: f64, c: &[f64], frames: usize, max_rate: usize) -> Result<(Vec<Vec<f64>>, usize, f64), String> {
    let mut rate = 8000usize;
    loop {
        let t0 = rate / 20;
        let cc = c.to_vec();
        let r = catch(move || {
            let mut v = Vocoder::new(nmcp, 0, 0, false, rate, alpha, beta, 1.0, t0);
            let mut out = Vec::new();
            for _ in 0..frames {
                let mut buf = vec![0.0; t0];
                v.synthesize(20f64.ln(), &cc, &[], &mut buf);
                out.push(buf);
            }
            out
        })?;
        let s = (t0 as f64).sqrt();
        let frames_out: Vec<Vec<f64>> = r.iter().map(|b| b[..t0 - 2].iter().map(|x| x / s).collect()).collect();
        let last = frames_out.last().unwrap();
        let peak = last.iter().fold(0.0f64, |a, b| a.max(b.abs()));
        let tail = last[last.len() - last.len() / 20..].iter().fold(0.0f64, |a, b| a.max(b.abs())) / peak.max(1e-300);
        if !(tail >= 1e-7) || rate >= max_rate {
            return Ok((frames_out, rate, tail));
        }
        rate *= 4;
    }
}

pub fn shape_max(c: &[f64], alpha: f64) -> f64 {
    (0..257)
        .map(|k| {
            let wt = warp(std::f64::consts::PI * k as f64 / 256.0, alpha);
            (1..c.len()).map(|m| c[m] * (m as f64 * wt).cos()).sum::<f64>().abs()
        })
        .fold(0.0, f64::max)
}

/// unit-shape patterns for one vector length: every single coefficient (both signs), every adjacent
/// pair (all sign combinations), and for len <= 4 the full {-1,0,1}^(len-1) product.
pub fn patterns(len: usize) -> Vec<Vec<f64>> {
    let mut pats: Vec<Vec<f64>> = Vec::new();
    for m in 1..len {
        for sg in [1.0, -1.0] {
            let mut c = vec![0.0; len];
            c[m] = sg;
            pats.push(c.clone());
            if m + 1 < len {
                for sg2 in [1.0, -1.0] {
                    let mut d = c.clone();
                    d[m + 1] = sg2;
                    pats.push(d);
                }
            }
        }
    }
    if len <= 4 {
        let n = len - 1;
        for code in 0..3usize.pow(n as u32) {
            let mut c = vec![0.0; len];
            let mut x = code;
            for m in 1..len {
                c[m] = (x % 3) as f64 - 1.0;
                x /= 3;
            }
            if c.iter().any(|v| *v != 0.0) && !pats.contains(&c) {
                pats.push(c);
            }
        }
    }
    pats
}

pub const LENS: [usize; 8] = [2, 3, 4, 5, 10, 25, 35, 40];
pub const ALPHAS: [f64; 5] = [0.0, 0.3, 0.42, 0.55, 0.6];

/// A vocoder duplicated in the middle of an utterance (`clone()`, or `clone_from()` into a used vocoder of another
/// configuration) must carry on exactly like the original: for every split
/// point 1..5 of a 7-frame run (voiced at 200 Hz and unvoiced frames of 40 samples, so that pulse responses ring across frame
/// borders; parameters alternating between `pa` and `pb`; with and without a low-pass stream) the frames rendered by the copy
/// are compared bit for bit with the frames rendered by the original.  `configs`: (nmcp, stage, log gain, alpha, beta, pa, pb).
pub fn clone_midstream(rep: &Report, configs: &[(usize, usize, bool, f64, f64, Vec<f64>, Vec<f64>)]) -> u64 {
    let mut n = 0u64;
    for (nmcp, stage, lg, alpha, beta, pa, pb) in configs {
        for nl in [0usize, 3] {
            let h = vec![0.25, 0.5, 0.25];
            let lf0 = [200f64.ln(), 200f64.ln(), -1e10, 180f64.ln(), 220f64.ln(), -1e10, 200f64.ln()];
            let fp = 40usize;
            for split in 1..=5usize {
                n += 1;
                rep.eval(1);
                rep.cmp(1);
                let rp = json!({"vocoder_clone_after_frame": split, "nmcp": nmcp, "stage": stage, "log_gain": lg, "alpha": alpha, "beta": beta, "lpf_taps": nl, "rate": 16000, "fperiod": fp,
                    "frame_lf0": lf0.iter().map(|x| format!("{:e}", x)).collect::<Vec<_>>(), "params_even_frames": pa, "params_odd_frames": pb});
                let r = catch(|| {
                    let mut v = Vocoder::new(*nmcp, nl, *stage, *lg, 16000, *alpha, *beta, 1.0, fp);
                    let mut w: Option<Vocoder> = None;
                    let (mut orig, mut copy) = (Vec::new(), Vec::new());
                    for (i, l) in lf0.iter().enumerate() {
                        if i == split {
                            // odd split points: `clone()`; even ones: `clone_from()` into a vocoder that was built with other
                            // parameters (one filter coefficient more, another warping, postfilter and volume) and has
                            // already rendered a frame - afterwards it must be the source's twin all the same
                            if split % 2 == 1 {
                                w = Some(v.clone());
                            } else {
                                let mut other = Vocoder::new(*nmcp + 1, if nl == 0 { 3 } else { 0 }, *stage, !*lg && *stage > 0, 48000, 0.17, if *stage == 0 { 0.25 } else { 0.0 }, 2.0, fp);
                                let mut warm: Vec<f64> = pa.clone();
                                warm.push(if *stage == 0 { 0.01 } else { 3.1 });
                                let mut b0 = vec![0.0; fp];
                                other.synthesize(150f64.ln(), &warm, if nl == 0 { &h[..3] } else { &h[..0] }, &mut b0);
                                other.clone_from(&v);
                                w = Some(other);
                            }
                        }
                        let p = if i % 2 == 0 { pa } else { pb };
                        let mut buf = vec![0.0; fp];
                        v.synthesize(*l, p, &h[..nl], &mut buf);
                        if let Some(w) = w.as_mut() {
                            let mut b2 = vec![0.0; fp];
                            w.synthesize(*l, p, &h[..nl], &mut b2);
                            orig.extend(buf);
                            copy.extend(b2);
                        }
                    }
                    (orig, copy)
                });
                match r {
                    Err(p) => rep.violation(format!("panic@{}", site_of(&p)), p, rp),
                    Ok((orig, copy)) => {
                        if !bits_eq(&orig, &copy) {
                            let at = orig.iter().zip(&copy).position(|(a, b)| a.to_bits() != b.to_bits());
                            rep.violation("clone-midstream", format!("a Vocoder cloned after frame {} does not continue like the original: first difference at sample {:?} after the split", split, at), rp);
                        }
                        if orig.iter().all(|x| *x == 0.0) {
                            rep.guard(false, "clone part renders silence");
                        }
                    }
                }
            }
        }
    }
    n
}

pub fn run(tier: Tier) -> i32 {
    let rep = Report::new("C06", tier, "model_checking");
    let nfreq = tier.pick(33usize, 257usize);
    rep.set_rule("SCOPE: lattice of stationary mel-cepstra: vector lengths {2,3,4,5,10,25,35,40} x alpha {0,.3,.42,.55,.6} x c0 {-1,0,2} (and -12, 8, 12 on every 7th pattern) x shape patterns (each single coefficient +-, each adjacent pair, full {-1,0,1} product for length<=4) scaled to max|log H/K| in {0.5,1,2}; real Vocoder pulse response at F0=20Hz on a fresh vocoder, and on a stride of the lattice the last two frames of a run A,B,B,B (stationary after a change of gain and shape; also with A flat or with its upper half exactly zero) and, sparser, of slow glides from A to B over 300 and 2500 frames followed by B,B,B; oracle = DFT log-magnitude vs sum c_m cos(m w~) within 0.01 Np at every grid frequency; plus vocoders cloned in the middle of a 7-frame run (every split point, 4 orders, with/without low-pass stream) compared bit for bit with the original; distinct = distinct (length, alpha, cepstrum); non-trivial = shape != 0");
    rep.assume("cepstra off the lattice and |log H/K| > 2 are not explored; the digital filter does not depend on the nominal sampling rate, which is raised (8k..2M) only to lengthen T0 until the truncated tail is < 1e-7 of the peak");
    let mut cases: Vec<(usize, f64, f64, f64, Vec<f64>)> = Vec::new();
    let lens: Vec<usize> = if tier == Tier::Thorough { (2..=40).collect() } else { LENS.to_vec() };
    let alphas: Vec<f64> = if tier == Tier::Thorough { vec![0.0, 0.1, 0.3, 0.42, 0.5, 0.55, 0.6] } else { ALPHAS.to_vec() };
    for &len in &lens {
        for &alpha in &alphas {
            for &c0 in &[-1.0, 0.0, 2.0] {
                for &scale in &[0.5, 1.0, 2.0] {
                    for p in patterns(len) {
                        cases.push((len, alpha, c0, scale, p));
                    }
                }
            }
            // "the response scales with exp(c_0)": very loud and very quiet gains on a few shapes (samples far outside
            // and far inside any fixed-point range)
            for &c0 in &[-12.0, 8.0, 12.0] {
                for p in patterns(len).into_iter().step_by(7) {
                    cases.push((len, alpha, c0, 1.0, p));
                }
            }
        }
    }
    let worst = Mutex::new((0.0f64, String::new()));
    let worst_tail = Mutex::new(0.0f64);
    let rates = Mutex::new(std::collections::BTreeMap::<usize, u64>::new());
    let grid = freq_grid(nfreq);
    let alpha0 = AtomicU64::new(0);
    rep.par_for(cases.len(), 4, "C06 part 1", |i| {
        let (len, alpha, c0, scale, pat) = &cases[i];
        let mut c = pat.clone();
        let mx = shape_max(&c, *alpha);
        for m in 1..*len {
            c[m] *= scale / mx;
        }
        c[0] = *c0;
        rep.eval(1);
        rep.distinct(hash_f64s(&c) ^ (*len as u64) << 48 ^ (alpha.to_bits() >> 7));
        let rp = json!({"vector_length": len, "alpha": alpha, "cepstrum": c, "f0_hz": 20});
        match pulse_frames(*len, *alpha, 0.0, &c, 1, 2_000_000) {
            Err(p) => rep.violation(format!("panic@{}", site_of(&p)), p, rp),
            Ok((fr, rate, tail)) => {
                let h = &fr[0];
                *rates.lock().unwrap().entry(rate).or_insert(0) += 1;
                {
                    let mut wt = worst_tail.lock().unwrap();
                    if tail > *wt {
                        *wt = tail;
                    }
                }
                rep.outcome(hash_f64s(&h[..h.len().min(64)]));
                if h.iter().any(|x| !x.is_finite()) {
                    rep.violation("non-finite", "pulse response contains non-finite samples", rp);
                    return;
                }
                if tail > 1e-5 {
                    // cannot measure: not a verdict
                    rep.guard(false, &format!("tail {:e} too large to measure len {} alpha {}", tail, len, alpha));
                    return;
                }
                let mut err = 0.0f64;
                for w in &grid {
                    let want = mcep_logspec(&c, *alpha, *w);
                    let got = logmag(h, *w);
                    rep.cmp(1);
                    err = err.max((got - want).abs());
                }
                if *alpha == 0.0 {
                    alpha0.fetch_add(1, Ordering::Relaxed);
                }
                {
                    let mut w = worst.lock().unwrap();
                    if err > w.0 {
                        *w = (err, format!("len {} alpha {} c0 {} scale {}", len, alpha, c0, scale));
                    }
                }
                if !(err <= 0.01) {
                    rep.violation("spectrum", format!("log-magnitude deviates {:.4} Np from sum c_m cos(m w~) (len {}, alpha {}, c {:?})", err, len, alpha, c), rp);
                }
            }
        }
    });
    // ---------- stationary after a change: frames A, B, B, B – the pulses of the 3rd and 4th frame see cepstrum B ----------
    let after_change = AtomicU64::new(0);
    {
        let sub: Vec<&(usize, f64, f64, f64, Vec<f64>)> = cases.iter().step_by(tier.pick(23, 5)).collect();
        rep.par_for(sub.len(), 2, "C06 part 2 (stationary after a change)", |i| {
            let (len, alpha, c0, scale, pat) = sub[i];
            let mut b = pat.clone();
            let mx = shape_max(&b, *alpha);
            for m in 1..*len {
                b[m] *= scale / mx;
            }
            b[0] = *c0;
            // A differs from B in the gain (and, for every other case, in the sign of the shape)
            let mut a = b.clone();
            a[0] -= 1.5;
            if i % 2 == 1 {
                for m in 1..*len {
                    a[m] = -a[m];
                }
            }
            let rate = 32000usize;
            let t0 = rate / 20;
            // histories that end in B,B: the abrupt change A,B,B,B and, on a sparser stride, slow linear glides from A to B
            // (anything that remembers earlier frames and refreshes only on "large" changes shows up there)
            let mut seqs: Vec<(String, Vec<Vec<f64>>)> = vec![("A,B,B,B".to_string(), vec![a.clone(), b.clone(), b.clone(), b.clone()])];
            // a first frame whose upper coefficients are exactly zero (a flat lead-in, or a lower-order vector padded with zeros)
            if i % 3 == 0 {
                let mut flat = vec![0.0; *len];
                flat[0] = b[0] + 0.7;
                seqs.push(("flat,B,B,B".to_string(), vec![flat, b.clone(), b.clone(), b.clone()]));
                let mut padded = b.clone();
                for m in (*len + 1) / 2..*len {
                    padded[m] = 0.0;
                }
                seqs.push(("B with its upper half zeroed,B,B,B".to_string(), vec![padded, b.clone(), b.clone(), b.clone()]));
            }
            if i % 24 == 0 {
                for n in [300usize, 2500] {
                    let mut fr: Vec<Vec<f64>> = (0..n).map(|f| a.iter().zip(&b).map(|(x, y)| x + (y - x) * f as f64 / n as f64).collect()).collect();
                    fr.extend([b.clone(), b.clone(), b.clone()]);
                    seqs.push((format!("a glide from A to B over {} frames, then B,B,B", n), fr));
                }
            }
            for (what, frames) in seqs {
                let (al, ln) = (*alpha, *len);
                let nfr = frames.len();
                let fr2 = frames.clone();
                let r = catch(move || {
                    let mut v = Vocoder::new(ln, 0, 0, false, rate, al, 0.0, 1.0, t0);
                    let mut out = Vec::new();
                    for (f, c) in fr2.iter().enumerate() {
                        let mut buf = vec![0.0; t0];
                        v.synthesize(20f64.ln(), c, &[], &mut buf);
                        if f + 2 >= fr2.len() {
                            out.push(buf);
                        }
                    }
                    out
                });
                rep.eval(1);
                after_change.fetch_add(1, Ordering::Relaxed);
                let rp = json!({"vector_length": len, "alpha": alpha, "history": what, "A": a, "B": b, "frames": nfr, "f0_hz": 20, "measure": "the last two frames"});
                match r {
                    Err(p) => rep.violation(format!("panic@{}", site_of(&p)), p, rp),
                    Ok(fr) => {
                        let s = (t0 as f64).sqrt();
                        for fi in [0usize, 1] {
                            let h: Vec<f64> = fr[fi][..t0 - 2].iter().map(|x| x / s).collect();
                            let peak = h.iter().fold(0.0f64, |x, y| x.max(y.abs()));
                            let tail = h[h.len() - h.len() / 20..].iter().fold(0.0f64, |x, y| x.max(y.abs())) / peak.max(1e-300);
                            if !(tail < 1e-6) {
                                continue; // too slowly decaying to measure at this frame length: covered by the single-frame part
                            }
                            let mut err = 0.0f64;
                            for w in &grid {
                                rep.cmp(1);
                                err = err.max((logmag(&h, *w) - mcep_logspec(&b, *alpha, *w)).abs());
                            }
                            if !(err <= 0.01) {
                                rep.violation("spectrum-after-change", format!("frame {} of {}: log-magnitude deviates {:.4} Np from the spectrum of the (stationary) cepstrum B (len {}, alpha {})", nfr - 1 + fi, what, err, len, alpha), rp.clone());
                                break;
                            }
                        }
                    }
                }
            }
        });
    }
    rep.note("stationary_after_change_cases", json!(after_change.load(Ordering::Relaxed)));
    let w = worst.lock().unwrap().clone();
    rep.note("bounds", json!({"lengths": lens, "alphas": alphas, "c0": [-1.0, 0.0, 2.0], "scales_np": [0.5, 1.0, 2.0], "frequencies": nfreq, "cases": cases.len(),
        "worst_error_np": w.0, "worst_case": w.1, "worst_tail": *worst_tail.lock().unwrap(), "rates_used": format!("{:?}", rates.lock().unwrap()), "alpha0_cases": alpha0.load(Ordering::Relaxed)}));
    rep.sample(json!({"vector_length": 2, "alpha": 0.0, "cepstrum": [-1.0, 0.5]}));
    rep.sample(json!({"vector_length": 4, "alpha": 0.42, "pattern": [0, 1, -1, 1], "scale_np": 2.0, "c0": 2.0}));
    rep.sample_last(json!({"vector_length": cases.last().unwrap().0, "alpha": cases.last().unwrap().1, "pattern": cases.last().unwrap().4}));
    rep.guard(alpha0.load(Ordering::Relaxed) > 0, "alpha = 0 branch never run");
    {
        let mut cfgs = Vec::new();
        for (len, alpha) in [(2usize, 0.0f64), (5, 0.42), (25, 0.55), (40, 0.3)] {
            let pa: Vec<f64> = (0..len).map(|m| if m == 0 { 0.3 } else { 0.8 / (m as f64 + 1.0) * if m % 2 == 0 { -1.0 } else { 1.0 } }).collect();
            let pb: Vec<f64> = (0..len).map(|m| if m == 0 { -0.2 } else { 0.5 / (m as f64 + 1.0) }).collect();
            cfgs.push((len, 0usize, false, alpha, 0.0, pa, pb));
        }
        let n = clone_midstream(&rep, &cfgs);
        rep.note("vocoder_clone_cases", json!(n));
    }
    rep.finish()
}
