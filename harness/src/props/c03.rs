//! C03 – Synthesis is a deterministic pure function, safe to share across threads.
//! HIST: stateright over call histories on one engine (baselines from fresh child processes);
//! SCHED: all interleavings of 2–3 concurrent calls on one shared engine with ≤ B preemptions;
//! setter histories ending in one canonical condition; compile-time Send/Sync assertion;
//! informational scan of the shared-state surface.

use crate::common::*;
use crate::explore::sched::{self, ExploreStats, Program};
use crate::gen::cond::*;
use crate::gen::labels;
use crate::gen::voice::GenCfg;
use crate::props::c20::Act;
use jbonsai::Engine;
use serde_json::{json, Value};
use stateright::{Checker, Model, Property};
use std::collections::HashMap;
use std::io::Write;
use std::process::{Command, Stdio};
use std::sync::atomic::{AtomicU64, Ordering};
use std::sync::{Arc, Mutex};
use std::time::{Duration, Instant};

// ---------------------------------------------------------------------------------------------
// engines and utterances
// ---------------------------------------------------------------------------------------------
pub fn voice_cfg(kind: usize) -> GenCfg {
    match kind {
        0 => GenCfg { ns: 3, nstate: 1, fperiod: 2, order: 3, lpf_taps: 3, gv: true, tree: 1, wset: 1, dur_scale: 0.9, ..GenCfg::default() },
        1 => GenCfg { ns: 3, nstate: 1, fperiod: 2, order: 4, lpf_taps: 3, gv: true, tree: 1, wset: 1, dur_scale: 0.9, stage: 2, log_gain: true, ..GenCfg::default() },
        // HIST voices: a little longer (2–4 frames), two states
        2 => GenCfg { ns: 3, nstate: 2, fperiod: 2, order: 3, lpf_taps: 3, gv: true, tree: 1, wset: 2, dur_scale: 0.6, ..GenCfg::default() },
        // SCHED voice with two states per phoneme (two trees per stream model: state-indexed lookups have a first and
        // a second step)
        6 => GenCfg { ns: 3, nstate: 2, fperiod: 2, order: 3, lpf_taps: 3, gv: true, tree: 1, wset: 1, dur_scale: 0.5, ..GenCfg::default() },
        _ => GenCfg { ns: 2, nstate: 1, fperiod: 3, order: 4, gv: false, tree: 1, wset: 1, dur_scale: 1.5, stage: 1, ..GenCfg::default() },
    }
}
pub fn engine_kind(kind: usize) -> Engine {
    if kind == 9 {
        return engine_pk(&[0]);
    }
    if kind == 10 {
        // three voices with unequal weights on every quantity: with an utterance of >= 64 states this is the largest
        // configuration any check runs repeatedly (work the library might hand to helpers only pays off at this size)
        let mut e = engine_pk(&[0, 1, 2]);
        let w = [0.5, 0.3, 0.2];
        let iw = e.condition.get_interporation_weight_mut();
        iw.set_duration(&w).unwrap();
        for i in 0..3 {
            iw.set_parameter(i, &w).unwrap();
        }
        for i in 0..2 {
            iw.set_gv(i, &w).unwrap();
        }
        return e;
    }
    if kind == 4 || kind == 5 {
        // interpolated voice sets (2 and 3 voices with different trees): the weighted-average path is shared code too
        let cfg = voice_cfg(0);
        let n = if kind == 4 { 2 } else { 3 };
        let voices = (0..n).map(|v| Arc::new(load_voice_bytes(&GenCfg { variant: v as u32, ..cfg.clone() }.bytes()).expect("generated voice"))).collect();
        let mut e = engine_from_voices(voices).expect("voice set");
        e.condition.set_beta(0.3);
        let w: Vec<f64> = if n == 2 { vec![0.25, 0.75] } else { vec![0.5, 0.25, 0.25] };
        let iw = e.condition.get_interporation_weight_mut();
        iw.set_duration(&w).unwrap();
        for i in 0..3 {
            iw.set_parameter(i, &w).unwrap();
        }
        return e;
    }
    let mut e = engine_from_bytes(&voice_cfg(kind).bytes()).expect("generated voice");
    e.condition.set_beta(0.3);
    if kind >= 2 {
        // HIST voices: a low F0 threshold so that every utterance has voiced frames (pitch setters must matter)
        e.condition.set_msd_threshold(1, 0.05);
    }
    e
}
pub fn utterances() -> Vec<Vec<String>> {
    let corpus = labels::corpus();
    let lam = labels::lambda(&corpus);
    let pick = |c: &str| lam.iter().find(|l| labels::centre(l) == c).cloned().unwrap();
    let u1 = vec![pick("k"), pick("sil")];
    // the same labels with time stamps (100 ns units): only meaningful when alignment is on
    let timed: Vec<String> = u1.iter().enumerate().map(|(i, l)| format!("{} {} {}", i * 12_500, (i + 1) * 12_500, l)).collect();
    vec![vec![pick("a")], u1, vec![], timed]
}

// ---------------------------------------------------------------------------------------------
// HIST
// ---------------------------------------------------------------------------------------------
const SETTERS: usize = 7;
fn setter_act(s: usize, on: bool) -> Act {
    match (s, on) {
        (0, true) => Act::Speed(1.37),
        (0, false) => Act::Speed(1.0),
        (1, true) => Act::Beta(0.6),
        (1, false) => Act::Beta(0.3),
        (2, true) => Act::Gv(0, 1.7),
        (2, false) => Act::Gv(0, 1.0),
        (3, true) => Act::Msd(1, 0.5),
        (3, false) => Act::Msd(1, 0.05),
        (4, true) => Act::HalfTone(3.0),
        (4, false) => Act::HalfTone(0.0),
        (5, on) => Act::Align(on),
        (6, true) => Act::Fperiod(5),
        // every HIST voice is generated with frame period 2 or 3 (kind 2: 2, kind 3: 3); `engine_for_mask` and the
        // replay both restore the voice's own value
        (_, _) => Act::Fperiod(0),
    }
}
pub fn engine_for_mask_pub(base: &Engine, mask: u8) -> Engine {
    engine_for_mask(base, mask)
}
fn engine_for_mask(base: &Engine, mask: u8) -> Engine {
    let mut e = base.clone();
    for s in 0..SETTERS {
        if mask & (1 << s) != 0 {
            setter_act(s, true).apply(&mut e.condition);
        }
    }
    e
}
fn apply_setter(e: &mut Engine, base: &Engine, s: usize, on: bool) {
    if s == 6 && !on {
        Act::Fperiod(base.condition.get_fperiod()).apply(&mut e.condition);
    } else {
        setter_act(s, on).apply(&mut e.condition);
    }
}

#[derive(Clone, Debug, PartialEq, Eq, Hash)]
pub enum Op {
    Synth(usize),
    CloneSynth(usize),
    Open(usize),
    Step(usize),
    Finish(usize),
    Set(usize),
    Reset(usize),
}

#[derive(Clone, Debug, PartialEq, Eq, Hash)]
pub struct HState {
    hist: Vec<Op>,
    live: u8,
    mask: u8,
    bad: Option<String>,
}

pub struct HistModel {
    base: Engine,
    utts: Vec<Vec<String>>,
    baselines: HashMap<(u8, usize), Vec<f64>>,
    depth: usize,
    transitions: AtomicU64,
    outcomes: Mutex<std::collections::BTreeSet<u64>>,
    checked_last: AtomicU64,
    monitor: Arc<HangMonitor>,
    /// violating histories as the explorer found them (reported from here: a subject whose behaviour is not
    /// reproducible must not be able to crash stateright's path reconstruction)
    found: Mutex<Vec<(Vec<Op>, String)>>,
}

pub fn replay_hist(base: &Engine, utts: &[Vec<String>], baselines: &HashMap<(u8, usize), Vec<f64>>, hist: &[Op], outcomes: Option<&Mutex<std::collections::BTreeSet<u64>>>) -> Result<(), String> {
    let r = catch(|| -> Result<(), String> {
        let mut e = base.clone();
        let mut mask = 0u8;
        // live generators: (generator, mask at open, utterance, frames produced)
        let mut live: Vec<Option<(jbonsai::speech::SpeechGenerator, u8, usize, usize)>> = Vec::new();
        for (i, op) in hist.iter().enumerate() {
            let before = format!("{:?}", e.condition);
            let mut setter = false;
            match op {
                Op::Synth(u) => {
                    let w = e.synthesize(&utts[*u][..]).map_err(|x| format!("op {}: synthesize error {}", i, x))?;
                    if let Some(o) = outcomes {
                        o.lock().unwrap().insert(hash_f64s(&w));
                    }
                    if !bits_eq(&w, &baselines[&(mask, *u)]) {
                        return Err(format!("op {} {:?}: waveform differs from the fresh-process baseline for (condition mask {:05b}, utterance {})", i, op, mask, u));
                    }
                }
                Op::CloneSynth(u) => {
                    let c = e.clone();
                    let w = c.synthesize(&utts[*u][..]).map_err(|x| format!("op {}: synthesize error {}", i, x))?;
                    drop(c);
                    if !bits_eq(&w, &baselines[&(mask, *u)]) {
                        return Err(format!("op {} {:?}: a clone's waveform differs from the fresh-process baseline (mask {:05b}, utterance {})", i, op, mask, u));
                    }
                }
                Op::Open(u) => {
                    let g = e.generator(&utts[*u][..]).map_err(|x| format!("op {}: generator error {}", i, x))?;
                    live.push(Some((g, mask, *u, 0)));
                }
                Op::Step(gi) => {
                    if let Some(Some((g, m, u, k))) = live.get_mut(*gi) {
                        let b = &baselines[&(*m, *u)];
                        let fp = g.fperiod();
                        let mut buf = vec![0.0; fp];
                        let n = g.generate_step(&mut buf);
                        let total = b.len() / fp;
                        if *k < total {
                            if n != fp || !bits_eq(&buf, &b[*k * fp..(*k + 1) * fp]) {
                                return Err(format!("op {} {:?}: frame {} of live generator {} (opened under mask {:05b}) differs from the baseline", i, op, k, gi, m));
                            }
                            *k += 1;
                        } else if n != 0 {
                            return Err(format!("op {} {:?}: exhausted generator returned {}", i, op, n));
                        }
                    }
                }
                Op::Finish(gi) => {
                    if let Some(slot) = live.get_mut(*gi) {
                        if let Some((g, m, u, k)) = slot.take() {
                            let b = &baselines[&(m, u)];
                            let fp = g.fperiod();
                            let rest = g.generate_all();
                            if !bits_eq(&rest, &b[k * fp..]) {
                                return Err(format!("op {} {:?}: generate_all of live generator {} after {} frames differs from the baseline suffix", i, op, gi, k));
                            }
                        }
                    }
                }
                Op::Set(s) => {
                    apply_setter(&mut e, base, *s, true);
                    mask |= 1 << s;
                    setter = true;
                }
                Op::Reset(s) => {
                    apply_setter(&mut e, base, *s, false);
                    mask &= !(1 << s);
                    setter = true;
                }
            }
            if !setter && format!("{:?}", e.condition) != before {
                return Err(format!("op {} {:?} changed the engine's condition", i, op));
            }
        }
        Ok(())
    });
    match r {
        Ok(x) => x,
        Err(p) => Err(format!("panic: {}", p)),
    }
}

impl Model for HistModel {
    type State = HState;
    type Action = Op;
    fn init_states(&self) -> Vec<HState> {
        vec![HState { hist: vec![], live: 0, mask: 0, bad: None }]
    }
    fn actions(&self, s: &HState, out: &mut Vec<Op>) {
        if s.hist.len() >= self.depth || s.bad.is_some() {
            return;
        }
        for u in 0..self.utts.len() {
            out.push(Op::Synth(u));
        }
        for u in [0usize, 1, 3] {
            out.push(Op::CloneSynth(u));
            if s.live < 2 {
                out.push(Op::Open(u));
            }
        }
        for g in 0..s.live as usize {
            out.push(Op::Step(g));
            out.push(Op::Finish(g));
        }
        for k in 0..SETTERS {
            if s.mask & (1 << k) == 0 {
                out.push(Op::Set(k));
            } else {
                out.push(Op::Reset(k));
            }
        }
    }
    fn next_state(&self, s: &HState, a: Op) -> Option<HState> {
        self.transitions.fetch_add(1, Ordering::Relaxed);
        let mut hist = s.hist.clone();
        hist.push(a.clone());
        let mut live = s.live;
        let mut mask = s.mask;
        match a {
            Op::Open(_) => live += 1,
            Op::Set(k) => mask |= 1 << k,
            Op::Reset(k) => mask &= !(1 << k),
            _ => {}
        }
        let _watch = self.monitor.enter(|| format!("history {:?}", hist));
        let bad = replay_hist(&self.base, &self.utts, &self.baselines, &hist, Some(&self.outcomes)).err();
        if let Some(b) = &bad {
            self.found.lock().unwrap().push((hist.clone(), b.clone()));
        }
        Some(HState { hist, live, mask, bad })
    }
    fn properties(&self) -> Vec<Property<Self>> {
        vec![Property::always("outputs equal fresh-process baselines", |m: &HistModel, s: &HState| {
            if s.hist.len() == m.depth {
                m.checked_last.fetch_add(1, Ordering::Relaxed);
            }
            s.bad.is_none()
        })]
    }
}

fn hex(w: &[f64]) -> String {
    w.iter().map(|x| format!("{:016x}", x.to_bits())).collect::<Vec<_>>().join("")
}
fn unhex(s: &str) -> Vec<f64> {
    (0..s.len() / 16).map(|i| f64::from_bits(u64::from_str_radix(&s[i * 16..(i + 1) * 16], 16).unwrap())).collect()
}

/// Baselines for every (condition mask, utterance), each from its own fresh child process.
fn child_baselines(kind: usize, masks: &[u8], nutt: usize) -> Result<HashMap<(u8, usize), Vec<f64>>, String> {
    let exe = std::env::current_exe().map_err(|e| e.to_string())?;
    let jobs: Vec<(u8, usize)> = masks.iter().flat_map(|m| (0..nutt).map(move |u| (*m, u))).collect();
    let out: Mutex<HashMap<(u8, usize), Vec<f64>>> = Mutex::new(HashMap::new());
    let err: Mutex<Option<String>> = Mutex::new(None);
    par_for(jobs.len(), 1, |j| {
        let (m, u) = jobs[j];
        let o = Command::new(&exe).args(["child", "c03base", &kind.to_string(), &m.to_string(), &u.to_string()]).stderr(Stdio::null()).output();
        match o {
            Ok(o) if o.status.success() => {
                let s = String::from_utf8_lossy(&o.stdout);
                let line = s.lines().find(|l| l.starts_with("W ")).unwrap_or("W ");
                out.lock().unwrap().insert((m, u), unhex(line[2..].trim()));
            }
            other => *err.lock().unwrap() = Some(format!("baseline child failed for mask {} utt {}: {:?}", m, u, other.map(|o| o.status))),
        }
    });
    if let Some(e) = err.into_inner().unwrap() {
        return Err(e);
    }
    Ok(out.into_inner().unwrap())
}

// ---------------------------------------------------------------------------------------------
// SCHED
// ---------------------------------------------------------------------------------------------
pub const PROGRAMS: [&str; 4] = ["synthesize(u1)", "synthesize(u2)", "generator(u1) stepped to the end", "clone().synthesize(u1)"];
fn program(e: &Arc<Engine>, utts: &[Vec<String>], p: usize) -> Program<Vec<f64>> {
    let e = e.clone();
    let u1 = utts[0].clone();
    let u2 = utts[1].clone();
    match p {
        0 => Arc::new(move || e.synthesize(&u1[..]).unwrap()),
        1 => Arc::new(move || e.synthesize(&u2[..]).unwrap()),
        2 => Arc::new(move || {
            let mut g = e.generator(&u1[..]).unwrap();
            let fp = g.fperiod();
            let mut out = Vec::new();
            let mut buf = vec![0.0; fp];
            while g.generate_step(&mut buf) > 0 {
                out.extend_from_slice(&buf);
            }
            out
        }),
        _ => Arc::new(move || {
            let c = (*e).clone();
            c.synthesize(&u1[..]).unwrap()
        }),
    }
}

pub fn all_tuples() -> Vec<Vec<usize>> {
    let mut v = Vec::new();
    for a in 0..4 {
        for b in a..4 {
            v.push(vec![a, b]);
        }
    }
    v.push(vec![0, 1, 2]);
    v.push(vec![0, 0, 3]);
    v.push(vec![1, 2, 3]);
    v
}

/// child: explore one program tuple; prints one JSON line
fn child_sched(args: &[String]) -> i32 {
    let kind: usize = args[0].parse().unwrap();
    let tuple: Vec<usize> = args[1].split(',').map(|x| x.parse().unwrap()).collect();
    let bound: usize = args[2].parse().unwrap();
    let gran: u8 = args[3].parse().unwrap();
    let wall: u64 = args[4].parse().unwrap();
    let replay: Option<Vec<usize>> = args.get(5).map(|s| if s.is_empty() { vec![] } else { s.split(',').map(|x| x.parse().unwrap()).collect() });
    let utts = utterances();
    // every execution gets a freshly loaded engine, so that state a change keeps inside the engine (a cache
    // shared by clones, say) starts empty in each explored schedule and a choice prefix replays exactly
    let current: Arc<Mutex<Arc<Engine>>> = Arc::new(Mutex::new(Arc::new(engine_kind(kind))));
    let make = {
        let current = current.clone();
        let utts = utts.clone();
        let tuple = tuple.clone();
        move || -> Vec<Program<Vec<f64>>> {
            let e = Arc::new(engine_kind(kind));
            *current.lock().unwrap() = e.clone();
            tuple.iter().map(|p| program(&e, &utts, *p)).collect()
        }
    };
    // solo baselines, each on its own fresh engine, before any scheduler is installed
    let baselines: Vec<Vec<f64>> = (0..tuple.len()).map(|i| (make()[i])()).collect();
    let render0 = format!("{:?}", engine_kind(kind).condition);
    sched::set_granularity(gran);
    let mut check = |x: &sched::Execution<Vec<f64>>| -> Option<String> {
        for (i, o) in x.outputs.iter().enumerate() {
            match o {
                None => return Some(format!("agent {} ({}) panicked", i, PROGRAMS[tuple[i]])),
                Some(w) => {
                    if !bits_eq(w, &baselines[i]) {
                        return Some(format!("agent {} ({}) produced a waveform that differs from its solo baseline", i, PROGRAMS[tuple[i]]));
                    }
                }
            }
        }
        if format!("{:?}", current.lock().unwrap().condition) != render0 {
            return Some("the shared engine's condition changed".into());
        }
        None
    };
    if let Some(choices) = replay {
        let x = sched::run_once(&make(), &choices);
        let v = if x.hang { Some("hang".to_string()) } else { check(&x) };
        println!("{}", json!({"replayed": true, "violation": v, "points": x.points.len(), "divergence": x.divergence}));
        return 0;
    }
    // determinism of the harness: the same schedule twice gives the same trace and outputs
    let a = sched::run_once(&make(), &[]);
    let b = sched::run_once(&make(), &[]);
    let deterministic = a.trace == b.trace && a.outputs.iter().zip(&b.outputs).all(|(x, y)| match (x, y) {
        (Some(x), Some(y)) => bits_eq(x, y),
        (None, None) => true,
        _ => false,
    });
    let mut stats = ExploreStats { schedules: 0, points: 0, max_points: 0, completed_bound: None, capped: false, blocked_events: 0, distinct_traces: Default::default() };
    let deadline = Instant::now() + Duration::from_secs(wall);
    let mut found = None;
    let mut completed: Option<usize> = None;
    for bnd in 0..=bound {
        let mut st = ExploreStats { schedules: 0, points: 0, max_points: 0, completed_bound: None, capped: false, blocked_events: 0, distinct_traces: Default::default() };
        let r = sched::explore(&make, bnd, deadline, &mut st, &mut check);
        stats.schedules += st.schedules;
        stats.points += st.points;
        stats.max_points = stats.max_points.max(st.max_points);
        stats.blocked_events += st.blocked_events;
        stats.distinct_traces.extend(st.distinct_traces.iter());
        if let Some(f) = r {
            found = Some((bnd, f));
            break;
        }
        if st.capped {
            stats.capped = true;
            break;
        }
        completed = Some(bnd);
    }
    let sites: std::collections::BTreeSet<&str> = a.trace.iter().map(|t| t.1).collect();
    println!(
        "{}",
        json!({
            "tuple": tuple, "kind": kind, "granularity": gran, "deterministic": deterministic,
            "schedules": stats.schedules, "points": stats.points, "max_points": stats.max_points, "completed_bound": completed, "capped": stats.capped,
            "blocked_events": stats.blocked_events, "distinct_traces": stats.distinct_traces.len(),
            "points_per_agent_default_schedule": (0..tuple.len()).map(|i| a.trace.iter().filter(|t| t.0 == i).count()).collect::<Vec<_>>(),
            "sites": sites,
            "violation": found.as_ref().map(|(b, f)| json!({"bound": b, "choices": f.0, "what": f.1, "trace_tail": f.2.iter().rev().take(12).rev().map(|t| format!("{}:{}", t.0, t.1)).collect::<Vec<_>>()})),
        })
    );
    0
}

fn child_base(args: &[String]) -> i32 {
    let kind: usize = args[0].parse().unwrap();
    let mask: u8 = args[1].parse().unwrap();
    let u: usize = args[2].parse().unwrap();
    let e = engine_for_mask(&engine_kind(kind), mask);
    let utts = utterances();
    match synth(&e, &utts[u]) {
        Ok(w) => {
            let mut o = std::io::stdout().lock();
            let _ = writeln!(o, "W {}", hex(&w));
            0
        }
        Err(_) => 3,
    }
}

/// (number of prefix sequences, alphabet size, max prefix length)
fn setter_space(tier: Tier) -> (usize, usize, usize) {
    let n1 = setter_alphabet(3).len();
    let d = tier.pick(2usize, 3usize);
    ((0..=d).map(|k| n1.pow(k as u32)).sum(), n1, d)
}
/// decode a case index into its setter prefix
fn setter_case(tier: Tier, idx: usize) -> (Vec<Act>, usize) {
    let alpha = setter_alphabet(3);
    let n1 = alpha.len();
    let (_, _, d) = setter_space(tier);
    let mut rem = idx;
    let mut len = 0;
    while len <= d {
        let cnt = n1.pow(len as u32);
        if rem < cnt {
            break;
        }
        rem -= cnt;
        len += 1;
    }
    let mut seq = Vec::with_capacity(len);
    for _ in 0..len {
        seq.push(alpha[rem % n1].clone());
        rem /= n1;
    }
    (seq, len)
}
fn child_setter(args: &[String]) -> i32 {
    unsafe {
        let lim = libc::rlimit { rlim_cur: 3 << 30, rlim_max: 3 << 30 };
        libc::setrlimit(libc::RLIMIT_AS, &lim);
    }
    let tier = if args[0] == "thorough" { Tier::Thorough } else { Tier::Quick };
    let (start, end): (usize, usize) = (args[1].parse().unwrap(), args[2].parse().unwrap());
    let base = engine_kind(2);
    let utts = utterances();
    let ns = 3;
    // two target conditions: alignment off on plain labels, alignment on on time-stamped labels; each is assigned
    // after the prefix in forward and in reverse setter order ("order of setter calls is irrelevant")
    let timed: Vec<String> = utts[1].iter().enumerate().map(|(i, l)| format!("{} {} {}", i * 12_500, (i + 1) * 12_500, l)).collect();
    let mut canon_b = canonical(ns);
    for a in canon_b.iter_mut() {
        if matches!(a, Act::Align(_)) {
            *a = Act::Align(true);
        }
    }
    let targets: Vec<(Vec<Act>, Vec<String>)> = vec![(canonical(ns), utts[1].clone()), (canon_b, timed)];
    let refs: Vec<(String, Vec<f64>)> = targets
        .iter()
        .map(|(c, u)| {
            let fresh = with_cond(&base, c);
            (format!("{:?}", fresh.condition), synth(&fresh, u).unwrap_or_default())
        })
        .collect();
    let stdout = std::io::stdout();
    for idx in start..end {
        {
            let mut o = stdout.lock();
            let _ = writeln!(o, "S {}", idx);
            let _ = o.flush();
        }
        let (seq, len) = setter_case(tier, idx);
        let mut n = 0u64;
        let mut bad: Option<String> = None;
        for (ti, (canon, utt)) in targets.iter().enumerate() {
            for reverse in [false, true] {
                let mut e = base.clone();
                for a in &seq {
                    a.apply(&mut e.condition);
                }
                if reverse {
                    for a in canon.iter().rev() {
                        a.apply(&mut e.condition);
                    }
                } else {
                    for a in canon {
                        a.apply(&mut e.condition);
                    }
                }
                n += 1;
                let same_render = format!("{:?}", e.condition) == refs[ti].0;
                // every combination is synthesised up to prefix length 1; longer prefixes on a stride (the rendering
                // of the condition, which shows every field, is compared for all of them)
                let do_synth = len <= 1 || (idx + ti + 2 * reverse as usize) % 5 == 0;
                let ok = same_render && (!do_synth || synth(&e, utt).map(|w| bits_eq(&w, &refs[ti].1)).unwrap_or(false));
                if !ok && bad.is_none() {
                    bad = Some(format!("after {:?} followed by the target assignment ({} order, alignment {}) the engine differs from a fresh engine given only the target assignment (condition rendering equal: {})", seq, if reverse { "reverse" } else { "forward" }, ti == 1, same_render));
                }
            }
        }
        let mut o = stdout.lock();
        let _ = writeln!(o, "R {} {} {}", idx, n, bad.unwrap_or_else(|| "-".into()).replace('\n', " "));
        let _ = o.flush();
    }
    0
}

pub fn child(args: &[String]) -> i32 {
    match args[0].as_str() {
        "c03setter" => child_setter(&args[1..]),
        "c03base" => child_base(&args[1..]),
        "c03sched" => child_sched(&args[1..]),
        "c03proc" => child_proc(&args[1..]),
        _ => 2,
    }
}

fn run_sched_child(kind: usize, tuple: &[usize], bound: usize, gran: u8, wall: u64, replay: Option<&[usize]>) -> Result<Value, String> {
    let exe = std::env::current_exe().map_err(|e| e.to_string())?;
    let t = tuple.iter().map(|x| x.to_string()).collect::<Vec<_>>().join(",");
    let mut args = vec!["child".to_string(), "c03sched".into(), kind.to_string(), t, bound.to_string(), gran.to_string(), wall.to_string()];
    if let Some(r) = replay {
        args.push(r.iter().map(|x| x.to_string()).collect::<Vec<_>>().join(","));
    }
    // the child stops exploring at `wall`; one execution may add the hang limit to that. A child that is silent
    // for much longer is killed and reported as a machinery failure (never left hanging, never a verdict).
    let limit = Duration::from_secs(wall * 2 + 300);
    let mut child = Command::new(&exe).args(&args).stderr(Stdio::null()).stdout(Stdio::piped()).spawn().map_err(|e| e.to_string())?;
    let mut out = child.stdout.take().ok_or("no stdout")?;
    let reader = std::thread::spawn(move || {
        let mut s = String::new();
        let _ = std::io::Read::read_to_string(&mut out, &mut s);
        s
    });
    let start = Instant::now();
    let status = loop {
        match child.try_wait().map_err(|e| e.to_string())? {
            Some(st) => break st,
            None => {
                if start.elapsed() > limit {
                    let _ = child.kill();
                    let _ = child.wait();
                    return Err(format!("scheduler child {:?} did not finish within {} s and was killed", args, limit.as_secs()));
                }
                std::thread::sleep(Duration::from_millis(50));
            }
        }
    };
    let s = reader.join().unwrap_or_default();
    let line = s.lines().rev().find(|l| l.starts_with('{')).ok_or_else(|| format!("no result from scheduler child (status {:?})", status))?;
    serde_json::from_str(line).map_err(|e| e.to_string())
}

// ---------------------------------------------------------------------------------------------
// generators of two different engines alive on one thread and stepped alternately (a server streaming two voices)
// ---------------------------------------------------------------------------------------------
fn cross_engine_part(rep: &Report) {
    // the five voice kinds plus two that differ from kinds 0 and 2 only in sampling rate and spectral order (same
    // log-F0 values frame by frame, different everything that is derived from rate or order): kinds 100 and 102
    // ... and kinds 201 / 203: the LSP kinds 1 and 3 with spectral orders 9 and 2 (larger and smaller than theirs)
    // ... and kind 300: kind 0 at -6200 dB, where every sample is a subnormal number (anything that changes how the
    // thread treats subnormals between two renderings shows there)
    let kinds = [0usize, 1, 2, 3, 6, 100, 102, 201, 203, 300];
    let utts = utterances();
    let u = &utts[1];
    let engines: Vec<Engine> = kinds
        .iter()
        .map(|k| {
            if *k == 300 {
                let mut e = engine_kind(0);
                e.condition.set_volume(-6200.0);
                e
            } else if *k >= 200 {
                let cfg = GenCfg { order: if *k == 201 { 9 } else { 2 }, ..voice_cfg(*k - 200) };
                let mut e = engine_from_bytes(&cfg.bytes()).expect("generated voice");
                e.condition.set_beta(0.3);
                e
            } else if *k >= 100 {
                let cfg = GenCfg { rate: if *k == 100 { 48000 } else { 8000 }, order: if *k == 100 { 6 } else { 5 }, ..voice_cfg(*k - 100) };
                let mut e = engine_from_bytes(&cfg.bytes()).expect("generated voice");
                e.condition.set_beta(0.3);
                e
            } else {
                engine_kind(*k)
            }
        })
        .collect();
    let solo: Vec<Result<Vec<f64>, String>> = engines.iter().map(|e| synth(e, u)).collect();
    let mut n = 0u64;
    // pairs whose second engine is the subnormal one come first: they are the ones sensitive to per-thread floating-
    // point state, and an earlier pair must not have changed that state for good before they run
    let mut order: Vec<(usize, usize)> = (0..engines.len()).flat_map(|a| (0..engines.len()).map(move |b| (a, b))).collect();
    order.sort_by_key(|(a, b)| (kinds[*b] != 300, (a + b) % 2 == 0, *a, *b));
    for (ai, bi) in order {
        {
            let (a, b) = (&engines[ai], &engines[bi]);
            let (Ok(sa), Ok(sb)) = (&solo[ai], &solo[bi]) else { continue };
            rep.eval(1);
            n += 1;
            let r = catch(|| -> Result<(Vec<f64>, Vec<f64>), String> {
                let mut ga = a.generator(&u[..]).map_err(|e| e.to_string())?;
                let mut gb = b.generator(&u[..]).map_err(|e| e.to_string())?;
                let (mut oa, mut ob) = (Vec::new(), Vec::new());
                if (ai + bi) % 2 == 0 {
                    loop {
                        let mut buf = vec![0.0; ga.fperiod()];
                        let na = ga.generate_step(&mut buf);
                        oa.extend_from_slice(&buf[..na]);
                        let mut buf = vec![0.0; gb.fperiod()];
                        let nb = gb.generate_step(&mut buf);
                        ob.extend_from_slice(&buf[..nb]);
                        if na == 0 && nb == 0 {
                            break;
                        }
                    }
                } else {
                    // both created, the first one run to its end and dropped while the second has not started yet
                    // (lifetimes that overlap without nesting)
                    oa = ga.generate_all();
                    ob = gb.generate_all();
                }
                Ok((oa, ob))
            });
            rep.cmp(2);
            let rp = json!({"part": "cross", "voice_kind_a": kinds[ai], "voice_kind_b": kinds[bi]});
            match r {
                Err(p) => rep.violation("cross-engine-panic", format!("generators of voice kinds {} and {} stepped alternately: {}", kinds[ai], kinds[bi], p), rp),
                Ok(Err(e)) => rep.violation("cross-engine-panic", format!("generators of voice kinds {} and {}: {}", kinds[ai], kinds[bi], e), rp),
                Ok(Ok((oa, ob))) => {
                    if !bits_eq(&oa, sa) || !bits_eq(&ob, sb) {
                        rep.violation("cross-engine", format!("generators of voice kinds {} and {} stepped alternately on one thread: the {} one differs from its solo synthesis", kinds[ai], kinds[bi], if bits_eq(&oa, sa) { "second" } else { "first" }), rp);
                    }
                }
            }
        }
    }
    rep.note("cross_engine_pairs", json!(n));
}

// ---------------------------------------------------------------------------------------------
// process history: what a process synthesized before must not matter (state that outlives an engine: statics,
// lazily built tables). Every run is its own child process; the reference is a child that only does the second step.
// ---------------------------------------------------------------------------------------------
/// (voice kind, one setter call applied to its default condition)
// ---------------------------------------------------------------------------------------------
// re-entrancy through the caller's own types
// ---------------------------------------------------------------------------------------------
/// A label line that is some caller's own type: its `as_ref` does work of its own - here, a whole synthesis on another engine
/// (on the same thread, in the middle of the outer call's label loop).
struct BusyLine<'a> {
    text: &'a str,
    fire: bool,
    inner: &'a Engine,
    inner_labels: &'a [String],
    fired: std::cell::Cell<u32>,
}
impl AsRef<str> for BusyLine<'_> {
    fn as_ref(&self) -> &str {
        if self.fire {
            self.fired.set(self.fired.get() + 1);
            let _ = self.inner.synthesize(self.inner_labels);
        }
        self.text
    }
}
/// A caller's own `ToLabels`: converts through the library's implementation for string slices, after (or before) rendering
/// something else with another engine.
struct FrontEnd<'a> {
    lines: &'a [String],
    inner: &'a Engine,
    inner_labels: &'a [String],
    inner_first: bool,
}
impl jbonsai::label::ToLabels for FrontEnd<'_> {
    fn to_labels(self, condition: &jbonsai::Condition) -> Result<jbonsai::label::Labels, jbonsai::label::LabelError> {
        if self.inner_first {
            let _ = self.inner.synthesize(self.inner_labels);
        }
        let r = self.lines.to_labels(condition);
        if !self.inner_first {
            let mut g = self.inner.generator(self.inner_labels).ok();
            if let Some(g) = g.as_mut() {
                let mut buf = vec![0.0; g.fperiod()];
                g.generate_step(&mut buf);
            }
        }
        r
    }
}

/// The outer call must give what it gives without the nested call: outer engines with alignment on and time-stamped lines,
/// a pitch shift, another rate / frame period, a volume; inner engines with other values of the same settings and another
/// voice.  `who` prefixes the violation keys (the part is shared with C15).
pub fn reentrant_part(rep: &Report, who: &str) -> u64 {
    let corpus = labels::corpus();
    let plain: Vec<String> = corpus[40..44].to_vec();
    let timed: Vec<String> = plain.iter().enumerate().map(|(i, l)| format!("{} {} {}", i * 900_000, (i + 1) * 900_000, l)).collect();
    let inner_labels: Vec<String> = corpus[100..102].to_vec();
    let mk = |kind: usize, acts: &[Act]| -> Engine { with_cond(&engine_kind(kind), acts) };
    let outers: Vec<(String, Engine, &Vec<String>)> = vec![
        ("mel-cepstral, alignment on, rate 16000, frame period 80".into(), mk(2, &[Act::Align(true), Act::Rate(16000), Act::Fperiod(80)]), &timed),
        ("mel-cepstral, +5 half tones, threshold 0.05".into(), mk(2, &[Act::HalfTone(5.0)]), &plain),
        ("LSP, alignment on, frame period 7, volume -6 dB".into(), mk(1, &[Act::Align(true), Act::Fperiod(7), Act::Volume(-6.0)]), &timed),
        ("two voices, -3 half tones, speed 1.3, alpha 0.5".into(), mk(4, &[Act::HalfTone(-3.0), Act::Speed(1.3), Act::Alpha(0.5)]), &plain),
    ];
    let inners: Vec<(String, Engine)> = vec![
        ("mel-cepstral at its defaults".into(), mk(0, &[])),
        ("LSP, rate 48000, frame period 240, +12 half tones, alignment on".into(), mk(1, &[Act::Rate(48000), Act::Fperiod(240), Act::HalfTone(12.0), Act::Align(true)])),
        ("mel-cepstral, frame period 3, speed 0.5, volume 20 dB, beta 0".into(), mk(6, &[Act::Fperiod(3), Act::Speed(0.5), Act::Volume(20.0), Act::Beta(0.0)])),
    ];
    let mut n = 0u64;
    for (oname, outer, lines) in &outers {
        let want = match synth(outer, lines) {
            Ok(w) => w,
            Err(e) => {
                rep.violation(format!("{}reentrant-base", who), format!("outer synthesis fails: {}", e), json!({"outer": oname}));
                continue;
            }
        };
        for (iname, inner) in &inners {
            // (a) a line type whose as_ref runs the inner synthesis: at the first, second, last line, and at every line
            for fire_at in [Some(0usize), Some(1), Some(lines.len() - 1), None] {
                let busy: Vec<BusyLine> = lines.iter().enumerate().map(|(i, l)| BusyLine { text: l, fire: fire_at.map(|k| k == i).unwrap_or(true), inner, inner_labels: &inner_labels, fired: Default::default() }).collect();
                let got = catch(|| outer.synthesize(&busy[..]).map_err(|e| e.to_string()));
                n += 1;
                rep.eval(1);
                rep.cmp(1);
                let rp = json!({"outer_engine": oname, "outer_lines": lines, "inner_engine": iname, "inner_labels": inner_labels, "nested_call": format!("synthesize inside AsRef::<str>::as_ref of line {:?} (None: every line)", fire_at)});
                rep.guard(busy.iter().any(|b| b.fired.get() > 0), "the label loop never called as_ref on the caller's line type");
                match got {
                    Ok(Ok(w)) if bits_eq(&w, &want) => {}
                    Ok(Ok(w)) => rep.violation(format!("{}reentrant-as-ref", who), format!("a synthesis on another engine ({}) nested inside the label loop (as_ref of line {:?}) changes the outer result: {} vs {} samples, first difference at {:?}", iname, fire_at, w.len(), want.len(), w.iter().zip(&want).position(|(a, b)| a.to_bits() != b.to_bits())), rp),
                    Ok(Err(e)) => rep.violation(format!("{}reentrant-as-ref", who), format!("outer synthesis fails with a nested call: {}", e), rp),
                    Err(p) => rep.violation(format!("{}reentrant-panic@{}", who, site_of(&p)), p, rp),
                }
            }
            // (b) a ToLabels of the caller's own, rendering with the inner engine before / after the conversion
            for inner_first in [true, false] {
                let got = catch(|| outer.synthesize(FrontEnd { lines: &lines[..], inner, inner_labels: &inner_labels, inner_first }).map_err(|e| e.to_string()));
                n += 1;
                rep.eval(1);
                rep.cmp(1);
                let rp = json!({"outer_engine": oname, "outer_lines": lines, "inner_engine": iname, "inner_labels": inner_labels, "nested_call": if inner_first { "synthesize inside the caller's ToLabels::to_labels, before converting" } else { "a generator opened and stepped once inside the caller's ToLabels::to_labels, after converting" }});
                match got {
                    Ok(Ok(w)) if bits_eq(&w, &want) => {}
                    Ok(Ok(w)) => rep.violation(format!("{}reentrant-to-labels", who), format!("a nested call on another engine ({}) inside the caller's ToLabels changes the outer result: {} vs {} samples, first difference at {:?}", iname, w.len(), want.len(), w.iter().zip(&want).position(|(a, b)| a.to_bits() != b.to_bits())), rp),
                    Ok(Err(e)) => rep.violation(format!("{}reentrant-to-labels", who), format!("outer synthesis fails with a nested call: {}", e), rp),
                    Err(p) => rep.violation(format!("{}reentrant-panic@{}", who, site_of(&p)), p, rp),
                }
            }
        }
    }
    rep.note("reentrant_cases", json!(n));
    n
}

/// Settings copied with clone_from instead of clone / setters: the copy renders exactly what the source renders.
/// Re-applying a value read back through a getter must leave the engine exactly where a fresh engine given that value
/// is: [set(f), set(get())] against [set(g)], g being what the getter returned - bit-equal waveforms. A setter that
/// "has nothing to do" when the new value equals the getter's keeps internal state (e.g. the linear gain of f) that
/// the getter does not show (s246).
fn reapply_part(rep: &Report) {
    let utts = utterances();
    let u = &utts[0];
    let mut n = 0u64;
    let mut moved = 0u64;
    for kind in [0usize, 2] {
        let base = engine_kind(kind);
        let mut cases: Vec<(Act, fn(&jbonsai::engine::Condition) -> f64, fn(f64) -> Act)> = Vec::new();
        for i in 0..240 {
            let x = i as f64 * 0.1337 + 1e-3 / (i as f64 + 3.0);
            cases.push((Act::Volume(-24.0 + x), |c| c.get_volume(), Act::Volume));
            if i < 40 {
                cases.push((Act::Speed(0.5 + x / 16.0), |c| c.get_speed(), Act::Speed));
                cases.push((Act::HalfTone(-6.0 + x / 2.7), |c| c.get_additional_half_tone(), Act::HalfTone));
                cases.push((Act::Alpha(x / 40.0), |c| c.get_alpha(), Act::Alpha));
                cases.push((Act::Beta(x / 45.0), |c| c.get_beta(), Act::Beta));
                cases.push((Act::Msd(1, x / 33.0), |c| c.get_msd_threshold(1), |v| Act::Msd(1, v)));
                cases.push((Act::Gv(0, x / 20.0), |c| c.get_gv_weight(0), |v| Act::Gv(0, v)));
            }
        }
        for (act, get, mk) in cases {
            n += 1;
            rep.eval(1);
            rep.cmp(1);
            let mut e1 = base.clone();
            act.apply(&mut e1.condition);
            let g = get(&e1.condition);
            mk(g).apply(&mut e1.condition);
            let mut e2 = base.clone();
            mk(g).apply(&mut e2.condition);
            if format!("{:?}", act) != format!("{:?}", mk(g)) {
                moved += 1;
            }
            match (catch(|| synth(&e1, u)), catch(|| synth(&e2, u))) {
                (Ok(Ok(a)), Ok(Ok(b))) if bits_eq(&a, &b) => {}
                (a, b) => rep.violation("reapply-getter", format!("voice kind {}: after {:?} and then re-applying the value its getter returns ({:?}) the engine renders differently from a fresh engine given {:?}: {:?} vs {:?}", kind, act, mk(g), mk(g), a.map(|r| r.map(|x| x.len())), b.map(|r| r.map(|x| x.len()))), json!({"part": "reapply", "voice_kind": kind, "first": act.to_json(), "then": mk(g).to_json(), "utterance": u})),
            }
        }
    }
    rep.note("reapply_getter_cases", json!({"cases": n, "getter_value_differs_from_argument": moved}));
}

fn clone_from_part(rep: &Report) {
    let utts = utterances();
    let mut n = 0u64;
    for kind in [0usize, 1, 2, 4, 6] {
        for acts in [vec![], vec![Act::HalfTone(4.0), Act::Volume(-6.0), Act::Speed(1.3)], vec![Act::Alpha(0.5), Act::Beta(0.0), Act::Msd(1, 0.3), Act::Gv(0, 0.5), Act::Fperiod(5), Act::Align(true)]] {
            let e = with_cond(&engine_kind(kind), &acts);
            for (ui, u) in utts.iter().enumerate() {
                let Ok(want) = synth(&e, u) else { continue };
                for whole in [false, true] {
                    n += 1;
                    rep.eval(1);
                    rep.cmp(1);
                    match catch(|| synth(&via_clone_from(&e, whole), u)) {
                        Ok(Ok(w)) if bits_eq(&w, &want) => {}
                        other => rep.violation("clone-from", format!("voice kind {} with {:?}, utterance {}: an engine filled through {}::clone_from (onto a scratch object with other values{}) renders differently from its source: {:?}", kind, acts, ui, if whole { "Engine" } else { "Condition" }, if whole { " and another voice" } else { "" }, other.map(|r| r.map(|x| x.len()))), json!({"part": "clone_from", "voice_kind": kind, "settings": acts_json(&acts), "utterance": u, "whole_engine": whole})),
                    }
                }
            }
        }
    }
    rep.note("clone_from_cases", json!(n));
}

fn proc_items() -> Vec<(usize, Option<Act>)> {
    let mut v: Vec<(usize, Option<Act>)> = [0usize, 1, 2, 3, 6].iter().map(|k| (*k, None)).collect();
    let mut acts = setter_alphabet(3);
    acts.push(Act::Volume(1.0));
    for a in acts {
        // values that ask for absurd amounts of work or memory are left out (they would only be cut off below)
        let absurd = match a {
            Act::Speed(x) => x < 0.05,
            Act::Fperiod(x) => x > 4800,
            Act::Rate(x) => x > 1_000_000,
            _ => false,
        };
        if !absurd {
            v.push((2, Some(a)));
        }
    }
    v
}
fn proc_item_engine(item: &(usize, Option<Act>)) -> Engine {
    let mut e = engine_kind(item.0);
    if let Some(a) = &item.1 {
        a.apply(&mut e.condition);
    }
    e
}
const NONE: usize = usize::MAX;
fn child_proc(args: &[String]) -> i32 {
    unsafe {
        let lim = libc::rlimit { rlim_cur: 3 << 30, rlim_max: 3 << 30 };
        libc::setrlimit(libc::RLIMIT_AS, &lim);
    }
    let (i, j): (usize, usize) = (args[0].parse().unwrap_or(NONE), args[1].parse().unwrap());
    let items = proc_items();
    let utts = utterances();
    if i != NONE {
        let e = proc_item_engine(&items[i]);
        let _ = catch(|| e.synthesize(&utts[1][..]).map(|w| w.len()));
    }
    let e = proc_item_engine(&items[j]);
    match catch(|| e.synthesize(&utts[1][..])) {
        Ok(Ok(w)) => println!("W {}", hex(&w)),
        Ok(Err(er)) => println!("E error {}", er),
        Err(p) => println!("E panic {}", site_of(&p)),
    }
    0
}
fn run_proc_child(i: usize, j: usize) -> String {
    let exe = match std::env::current_exe() {
        Ok(e) => e,
        Err(e) => return format!("X {}", e),
    };
    // an item with an absurd setter value (speed 1e-7: ten million times the frames) may run "forever": it is cut
    // off and thereby excluded from the part
    let mut child = match Command::new(&exe).args(["child", "c03proc", &i.to_string(), &j.to_string()]).stderr(Stdio::null()).stdout(Stdio::piped()).spawn() {
        Ok(c) => c,
        Err(e) => return format!("X {}", e),
    };
    let Some(mut out) = child.stdout.take() else { return "X no stdout".into() };
    let reader = std::thread::spawn(move || {
        let mut s = String::new();
        let _ = std::io::Read::read_to_string(&mut out, &mut s);
        s
    });
    let start = Instant::now();
    loop {
        match child.try_wait() {
            Ok(Some(_)) => break,
            Ok(None) => {
                if start.elapsed() > Duration::from_secs(20) {
                    let _ = child.kill();
                    let _ = child.wait();
                    let _ = reader.join();
                    return "X cut off after 20 s".into();
                }
                std::thread::sleep(Duration::from_millis(10));
            }
            Err(e) => return format!("X {}", e),
        }
    }
    let text = reader.join().unwrap_or_default();
    text.lines().find(|l| l.starts_with("W ") || l.starts_with("E ")).map(|l| l.to_string()).unwrap_or_else(|| "X died".to_string())
}
fn proc_part(rep: &'static Report) {
    let items = proc_items();
    let describe = |k: usize| format!("voice kind {}{}", items[k].0, items[k].1.as_ref().map(|a| format!(" after {:?}", a)).unwrap_or_default());
    // solo runs: the reference, and the filter (an item whose own synthesis fails or dies, e.g. an absurd frame
    // period, takes part neither as first nor as second step)
    let solo: Mutex<Vec<String>> = Mutex::new(vec![String::new(); items.len()]);
    par_for(items.len(), 1, |k| {
        let r = run_proc_child(NONE, k);
        solo.lock().unwrap()[k] = r;
    });
    let solo = solo.into_inner().unwrap();
    let ok: Vec<usize> = (0..items.len()).filter(|k| solo[*k].starts_with("W ") && solo[*k].len() > 2).collect();
    let kinds: Vec<usize> = ok.iter().cloned().filter(|k| items[*k].1.is_none()).collect();
    let devs: Vec<usize> = ok.iter().cloned().filter(|k| items[*k].1.is_some()).collect();
    let k2 = items.iter().position(|it| it.0 == 2 && it.1.is_none()).unwrap();
    let mut pairs: Vec<(usize, usize)> = Vec::new();
    for &a in &kinds {
        for &b in &kinds {
            if a != b {
                pairs.push((a, b));
            }
        }
    }
    for &d in &devs {
        pairs.push((d, k2));
        pairs.push((k2, d));
    }
    let distinct: std::collections::BTreeSet<&String> = ok.iter().map(|k| &solo[*k]).collect();
    rep.guard(kinds.len() >= 4 && devs.len() >= 20 && distinct.len() >= 10, "process-history part has too few usable items");
    par_for(pairs.len(), 1, |pi| {
        let (a, b) = pairs[pi];
        rep.eval(1);
        let r = run_proc_child(a, b);
        if r != solo[b] {
            let what = if r.starts_with("W ") { "gives a different waveform".to_string() } else { format!("fails ({})", &r[..r.len().min(80)]) };
            rep.violation("process-history", format!("synthesis on {} {} in a process that synthesized on {} before", describe(b), what, describe(a)), json!({"part": "proc", "first": a, "second": b, "first_item": describe(a), "second_item": describe(b)}));
        }
    });
    rep.note("process_history", json!({"items": items.len(), "usable_items": ok.len(), "distinct_solo_waveforms": distinct.len(), "ordered_pairs": pairs.len(), "rule": "every ordered pair of the voice kinds, and (setter value, default) / (default, setter value) on one voice: the second synthesis in a fresh child process equals the same synthesis alone in a fresh child process"}));
}

// ---------------------------------------------------------------------------------------------
// copies are independent: a setter call on one copy of an engine is invisible to every other copy and to
// generators that already exist
// ---------------------------------------------------------------------------------------------
fn clone_case(kind: usize, act: &Act, variant: usize) -> Result<(), String> {
    let base = engine_kind(kind);
    let utts = utterances();
    let u = &utts[1];
    let w0 = base.synthesize(&u[..]).map_err(|e| format!("baseline: {}", e))?;
    let before = format!("{:?}", base.condition);
    let act = act.clone();
    let r = catch(move || -> Result<(), String> {
        match variant {
            0 => {
                let e = base.clone();
                let mut c = e.clone();
                act.apply(&mut c.condition);
                if format!("{:?}", e.condition) != before {
                    return Err(format!("{:?} on a clone changed the original engine's condition", act));
                }
                let w = e.synthesize(&u[..]).map_err(|x| x.to_string())?;
                if !bits_eq(&w, &w0) {
                    return Err(format!("{:?} on a clone changed the original engine's waveform", act));
                }
            }
            1 => {
                let mut e = base.clone();
                let c = e.clone();
                act.apply(&mut e.condition);
                if format!("{:?}", c.condition) != before {
                    return Err(format!("{:?} on the original changed an earlier clone's condition", act));
                }
                let w = c.synthesize(&u[..]).map_err(|x| x.to_string())?;
                if !bits_eq(&w, &w0) {
                    return Err(format!("{:?} on the original changed an earlier clone's waveform", act));
                }
            }
            _ => {
                let mut e = base.clone();
                let mut g = e.generator(&u[..]).map_err(|x| x.to_string())?;
                let fp = g.fperiod();
                let mut got = vec![0.0; fp];
                let n = g.generate_step(&mut got);
                got.truncate(n);
                act.apply(&mut e.condition);
                got.extend(g.generate_all());
                if !bits_eq(&got, &w0) {
                    return Err(format!("{:?} on the engine changed the rest of a generator that was already running", act));
                }
            }
        }
        Ok(())
    });
    match r {
        Ok(x) => x,
        Err(p) => Err(format!("panic: {}", p)),
    }
}
fn clone_part(rep: &Report) {
    let mut n = 0u64;
    for kind in [2usize, 3] {
        let ns = if kind == 2 { 3 } else { 2 };
        let mut acts = setter_alphabet(ns);
        acts.push(Act::Volume(1.0));
        acts.push(Act::Align(false));
        for a in &acts {
            for variant in 0..3 {
                rep.eval(1);
                n += 1;
                if let Err(m) = clone_case(kind, a, variant) {
                    let key = if m.contains("panic") { "copies-panic" } else if variant == 2 { "generator-sees-later-setter" } else { "copies-share-settings" };
                    rep.violation(key, format!("{} (voice kind {})", m, kind), json!({"part": "copies", "voice_kind": kind, "act": a.to_json(), "variant": variant}));
                }
            }
        }
    }
    rep.note("copies", json!({"cases": n, "rule": "for every setter value of the alphabet: called on a clone (original observed), on the original (earlier clone observed), on the engine after a generator produced its first frame (rest of the generator observed)"}));
}

// ---------------------------------------------------------------------------------------------
// static part and source scan
// ---------------------------------------------------------------------------------------------
fn static_part(rep: &Report) {
    let o = Command::new("cargo").args(["build", "--offline", "--quiet"]).current_dir(format!("{}/harness/static_c03", VERIF)).env("CARGO_NET_OFFLINE", "true").output();
    rep.eval(1);
    match o {
        Ok(o) if o.status.success() => rep.note("static_assertions", json!("Engine: Send + Sync + Clone, SpeechGenerator: Send, Condition: Send + Sync – compiled")),
        Ok(o) => {
            let err = String::from_utf8_lossy(&o.stderr).to_string();
            if err.contains("cannot be sent between threads") || err.contains("cannot be shared between threads") || err.contains("is not satisfied") {
                rep.violation("static-send-sync", format!("compile-time assertion failed: {}", err.lines().filter(|l| l.contains("error")).take(3).collect::<Vec<_>>().join(" | ")), json!({"crate": "/verif/harness/static_c03"}));
            } else {
                rep.guard(false, &format!("static assertion crate failed to build for another reason: {}", err.lines().rev().take(3).collect::<Vec<_>>().join(" | ")));
            }
        }
        Err(e) => rep.guard(false, &format!("cannot run cargo for the static assertion crate: {}", e)),
    }
}

fn source_scan(rep: &Report) {
    fn walk(dir: &std::path::Path, out: &mut Vec<std::path::PathBuf>) {
        if let Ok(rd) = std::fs::read_dir(dir) {
            for e in rd.flatten() {
                let p = e.path();
                if p.is_dir() {
                    walk(&p, out);
                } else if p.extension().map(|x| x == "rs").unwrap_or(false) {
                    out.push(p);
                }
            }
        }
    }
    let mut files = Vec::new();
    walk(std::path::Path::new("/repo/src"), &mut files);
    let mut hits = Vec::new();
    for f in files {
        let name = f.to_string_lossy().to_string();
        if name.ends_with("verif.rs") || name.ends_with("fir_simd.rs") {
            continue;
        }
        let Ok(src) = std::fs::read_to_string(&f) else { continue };
        let body = src.split("#[cfg(test)]").next().unwrap_or("");
        let body = body.split("#[cfg(all(test").next().unwrap_or("");
        for (ln, line) in body.lines().enumerate() {
            let t = line.trim_start();
            if t.starts_with("//") {
                continue;
            }
            let is_static_item = (t.starts_with("static ") || t.starts_with("pub static ") || t.starts_with("pub(crate) static ")) && t.contains(':');
            let kw = ["thread_local!", "Cell<", "RefCell<", "Mutex", "RwLock", "Atomic", "OnceLock", "OnceCell", "Lazy", "unsafe ", "unsafe{", "lazy_static"];
            if is_static_item || kw.iter().any(|k| t.contains(k)) {
                hits.push(format!("{}:{}: {}", name, ln + 1, t.chars().take(90).collect::<String>()));
            }
        }
    }
    rep.note("shared_state_surface_scan", json!({"hits": hits, "note": "informational only: textual scan of /repo/src outside cfg(test), the hook module and fir_simd.rs"}));
}

// ---------------------------------------------------------------------------------------------
// setter histories
// ---------------------------------------------------------------------------------------------
fn canonical(ns: usize) -> Vec<Act> {
    let mut v = vec![Act::Rate(16000), Act::Fperiod(2), Act::Volume(3.0), Act::Speed(1.1), Act::Align(false), Act::Alpha(0.4), Act::Beta(0.2), Act::HalfTone(1.5)];
    for i in 0..ns {
        v.push(Act::Msd(i, 0.4));
        v.push(Act::Gv(i, 1.2));
    }
    v
}
fn setter_alphabet(ns: usize) -> Vec<Act> {
    let f = [0.0, 1.0, -1.0, 0.5, 1e-7, 1e300, -1e300, 2.0, 24.0];
    let mut a = Vec::new();
    for v in [0usize, 1, 48000, usize::MAX] {
        a.push(Act::Rate(v));
        a.push(Act::Fperiod(v));
    }
    for v in [-20.0, 20.0] {
        a.push(Act::Volume(v));
    }
    for &v in &f {
        for i in 0..ns {
            a.push(Act::Msd(i, v));
            a.push(Act::Gv(i, v));
        }
        a.push(Act::Speed(v));
        a.push(Act::Alpha(v));
        a.push(Act::Beta(v));
        a.push(Act::HalfTone(v));
    }
    a.push(Act::Align(true));
    a
}

pub fn run(tier: Tier) -> i32 {
    let rep: &'static Report = Box::leak(Box::new(Report::new("C03", tier, "model_checking")));
    let monitor = Arc::new(HangMonitor::start(rep, "C03 call history"));
    rep.set_rule("HIST (stateright BFS, no state merging): all call histories to the depth bound over {synthesize(u) for 4 utterances (one of them time-stamped), clone+synthesize, open a generator (<= 2 live), step it, finish it, set/reset 7 condition setters incl. alignment and frame period} on one real engine, every output compared bit-exactly with a baseline computed by a fresh child process for (condition values, labels); SCHED: for each tuple of programs {synthesize(u1), synthesize(u2), generator(u1) stepped, clone().synthesize(u1)} on one shared engine (mel-cepstral and LSP voices with GV, postfilter and mixed excitation, one and two states per phoneme; an interpolated 2-voice set), every schedule with <= B preemptions at verif-hooks sites under a controlled scheduler (one agent runs at a time), outputs compared with solo baselines; all sequences of <= 2/3 setter calls followed by one canonical assignment vs a fresh engine; generators of every ordered pair of voice kinds stepped alternately on one thread vs their solo syntheses; process history (every ordered pair of voice kinds and (setter value, default) pairs, the second synthesis of a fresh child process vs the same synthesis alone in a fresh child process); every setter value called on a clone / on the original / after a generator started, with the other copy or the running generator observed; engines filled through Condition::clone_from / Engine::clone_from onto scratch objects with other values (and another voice); a synthesis on another engine nested inside the outer call through the caller's own types (AsRef<str> of a label line, ToLabels), 4 outer x 3 inner engines; supplementary free-running rounds (sampling, labelled so): 8 real threads on one shared engine, and 8 threads with shared or different utterances of equal length and their own settings plus bursts of 2000 setter calls each; compile-time Send/Sync/Clone assertion; non-trivial = history/schedule with at least two synthesis operations");
    rep.assume("preemptions only at verif-hooks sites (fine: every site, impulse-response loop thinned to every 191st iteration; coarse: stage boundaries); at most 3 controlled threads and 2 preemptions; weak-memory effects are not modelled");
    static_part(rep);
    source_scan(rep);
    clone_part(rep);
    cross_engine_part(rep);
    reentrant_part(rep, "");
    clone_from_part(rep);
    reapply_part(rep);
    let utts = utterances();
    let mut total_sched = 0u64;
    let mut multi_trace = 0usize;
    // the three deciding parts use different resources (stateright threads, child-process sweeps, scheduler children):
    // they run side by side
    std::thread::scope(|phase| {
    let utts = &utts;
    phase.spawn(move || proc_part(rep));
    phase.spawn(move || {
    // ---------- HIST ----------
    let masks: Vec<u8> = (0..(1u16 << SETTERS)).map(|m| m as u8).collect();
    let depth = tier.pick(3usize, 4usize);
    for kind in [2usize, 3] {
        let base = engine_kind(kind);
        let baselines = match child_baselines(kind, &masks, utts.len()) {
            Ok(b) => b,
            Err(e) => {
                rep.guard(false, &e);
                continue;
            }
        };
        let distinct_base: std::collections::BTreeSet<u64> = baselines.values().map(|w| hash_f64s(w)).collect();
        let mut counts = Vec::new();
        for threads in [nthreads(), (nthreads() / 2).max(2)] {
            let model = HistModel { base: base.clone(), utts: utts.clone(), baselines: baselines.clone(), depth, transitions: Default::default(), outcomes: Default::default(), checked_last: Default::default(), monitor: monitor.clone(), found: Default::default() };
            let checker = model.checker().threads(threads).target_max_depth(depth + 2).spawn_bfs().join();
            counts.push(checker.unique_state_count());
            rep.guard(checker.model().checked_last.load(Ordering::Relaxed) > 0, "invariant never evaluated on histories at the depth bound");
            if threads != nthreads() {
                if kind == 3 || tier == Tier::Thorough {
                    // the second run is only a determinism cross-check of the explorer; once per tier is enough
                }
                continue;
            }
            let tr = checker.model().transitions.load(Ordering::Relaxed);
            rep.states.fetch_add(checker.unique_state_count() as u64, Ordering::Relaxed);
            rep.transitions.fetch_add(tr, Ordering::Relaxed);
            rep.traces.fetch_add(tr, Ordering::Relaxed);
            rep.eval(tr);
            rep.nontrivial.fetch_add(checker.unique_state_count() as u64 - 1, Ordering::Relaxed);
            for o in checker.model().outcomes.lock().unwrap().iter() {
                rep.outcome(*o);
            }
            rep.note(&format!("hist_voice{}", kind), json!({"voice": voice_cfg(kind).describe(), "depth": depth, "unique_states": checker.unique_state_count(), "transitions": tr, "baseline_child_processes": baselines.len(), "distinct_baseline_waveforms": distinct_base.len(), "frames_u1": baselines[&(0, 0)].len() / base.condition.get_fperiod()}));
            rep.guard(distinct_base.len() > 8, "baselines hardly differ: the setters do not influence the output");
            let found = checker.model().found.lock().unwrap().clone();
            for (hist, what) in found {
                struct L {
                    hist: Vec<Op>,
                }
                let last = L { hist };
                let key = if what.contains("panic") { "hist-panic" } else if what.contains("changed the engine's condition") { "hist-condition-changed" } else if what.contains("clone") { "hist-clone" } else if what.contains("generator") { "hist-generator" } else { "hist-repeat" };
                rep.violation(key, format!("{} :: history {:?}", what, last.hist), json!({"part": "hist", "voice_kind": kind, "history": last.hist.iter().map(|o| format!("{:?}", o)).collect::<Vec<_>>()}));
            }
        }
        if rep.violation_count() == 0 && counts.len() == 2 && counts[0] != counts[1] {
            rep.guard(false, &format!("state counts differ between thread counts: {:?}", counts));
        }
    }
    rep.sample(json!({"history": ["Set(1)", "Synth(0)", "Reset(1)", "Synth(0)"], "voice": voice_cfg(2).describe()}));
    });
    phase.spawn(move || {
    // ---------- setter histories (in child processes: a stale derived value can ask for absurd amounts of memory) ----------
    {
        let (total, nalpha, d) = setter_space(tier);
        rep.note("setter_histories", json!({"alphabet": nalpha, "max_prefix_length": d, "sequences": total, "targets": 2, "assignment_orders": ["forward", "reverse"]}));
        let chunks = 16usize;
        let per = total.div_ceil(chunks);
        let ranges: Vec<(usize, usize)> = (0..chunks).map(|c| (c * per, ((c + 1) * per).min(total))).filter(|r| r.0 < r.1).collect();
        let tier_name = tier.name().to_string();
        par_for(ranges.len(), 1, |ri| {
            let (a, b) = ranges[ri];
            let r = run_isolated(
                &["c03setter".to_string(), tier_name.clone()],
                a,
                b,
                60,
                &|_i, text| {
                    // "<cases> <bad description or ->"
                    let mut it = text.splitn(2, ' ');
                    let n: u64 = it.next().and_then(|x| x.parse().ok()).unwrap_or(0);
                    rep.eval(n);
                    rep.traces.fetch_add(n, Ordering::Relaxed);
                    let rest = it.next().unwrap_or("-");
                    if rest != "-" {
                        rep.violation("setter-history", rest.to_string(), json!({"part": "setter-history", "what": rest}));
                    }
                },
                &|i, why| {
                    let (seq, _) = setter_case(tier, i);
                    rep.violation("setter-history-crash", format!("the process {} while synthesizing after the setter prefix {:?} followed by a target assignment", why, seq), json!({"part": "setter-history", "prefix": acts_json(&seq), "index": i}));
                },
            );
            if let Err(e) = r {
                rep.guard(false, &format!("setter-history child: {}", e));
            }
        });
    }
    });
    // ---------- SCHED ----------
    let mut jobs: Vec<(usize, Vec<usize>, usize, u8, u64)> = Vec::new(); // kind, tuple, bound, granularity, wall
    let tuples = all_tuples();
    match tier {
        Tier::Quick => {
            for t in [vec![0, 1], vec![0, 0], vec![0, 2], vec![2, 3]] {
                jobs.push((0, t.clone(), 1, 0, 40));
            }
            jobs.push((1, vec![0, 1], 1, 0, 40));
            jobs.push((1, vec![1, 2], 1, 0, 40));
            jobs.push((4, vec![0, 1], 1, 0, 40));
            jobs.push((4, vec![0, 2], 2, 1, 40));
            jobs.push((6, vec![0, 1], 1, 0, 40));
            jobs.push((6, vec![0, 0], 1, 0, 40));
            for t in [vec![0, 1], vec![0, 0], vec![0, 2]] {
                jobs.push((0, t.clone(), 2, 1, 40));
            }
            jobs.push((0, vec![0, 1, 2], 1, 1, 40));
        }
        Tier::Thorough => {
            for kind in [0usize, 1, 4] {
                for t in &tuples {
                    jobs.push((kind, t.clone(), 1, 0, 240));
                    jobs.push((kind, t.clone(), if t.len() == 2 { 2 } else { 1 }, 1, 240));
                }
            }
            for t in [vec![0, 1], vec![0, 0], vec![0, 2]] {
                jobs.push((0, t.clone(), 2, 0, 420));
            }
            jobs.push((5, vec![0, 1], 1, 0, 240));
            for t in &tuples {
                jobs.push((6, t.clone(), 1, 0, 240));
            }
        }
    }
    let sched_results: Mutex<Vec<Value>> = Mutex::new(Vec::new());
    par_for(jobs.len(), 1, |j| {
        let (kind, tuple, bound, gran, wall) = &jobs[j];
        match run_sched_child(*kind, tuple, *bound, *gran, *wall, None) {
            Err(e) => rep.guard(false, &format!("scheduler child failed: {}", e)),
            Ok(v) => {
                let schedules = v["schedules"].as_u64().unwrap_or(0);
                rep.eval(schedules);
                rep.states.fetch_add(v["points"].as_u64().unwrap_or(0), Ordering::Relaxed);
                rep.transitions.fetch_add(v["points"].as_u64().unwrap_or(0), Ordering::Relaxed);
                rep.traces.fetch_add(schedules, Ordering::Relaxed);
                rep.nontrivial.fetch_add(v["distinct_traces"].as_u64().unwrap_or(0), Ordering::Relaxed);
                if v["deterministic"].as_bool() != Some(true) {
                    rep.guard(false, "the same schedule executed twice gave different traces or outputs (nondeterminism not owned by the harness)");
                }
                if v["capped"].as_bool() == Some(true) {
                    rep.not_exhaustive(&format!("wall cap hit for tuple {:?} bound {} granularity {}; completed bound {:?}", tuple, bound, gran, v["completed_bound"]));
                }
                if !v["violation"].is_null() {
                    let what = v["violation"]["what"].as_str().unwrap_or("").to_string();
                    let choices: Vec<usize> = v["violation"]["choices"].as_array().cloned().unwrap_or_default().iter().filter_map(|x| x.as_u64().map(|y| y as usize)).collect();
                    if what.starts_with("MACHINERY") {
                        rep.guard(false, &what);
                    } else {
                        // re-execute that one schedule in a fresh process before reporting it
                        let fresh = run_sched_child(*kind, tuple, *bound, *gran, 60, Some(&choices));
                        let reproduced = fresh.as_ref().map(|f| !f["violation"].is_null()).unwrap_or(false);
                        let key = if what.contains("hang") { "sched-hang" } else if what.contains("panicked") { "sched-panic" } else if what.contains("condition") { "sched-condition" } else { "sched-output" };
                        rep.violation(
                            key,
                            format!("{} :: programs {:?} on voice kind {}, {} preemption bound, schedule of {} choices ({} in a fresh process)", what, tuple.iter().map(|p| PROGRAMS[*p]).collect::<Vec<_>>(), kind, v["violation"]["bound"], choices.len(), if reproduced { "reproduced" } else { "NOT reproduced alone: state carried over from earlier schedules in the explorer's process" }),
                            json!({"part": "sched", "voice_kind": kind, "programs": tuple, "granularity": gran, "choices": choices, "trace_tail": v["violation"]["trace_tail"], "reproduced_in_fresh_process": reproduced}),
                        );
                    }
                }
                sched_results.lock().unwrap().push(v);
            }
        }
    });
    let sr = sched_results.into_inner().unwrap();
    total_sched = sr.iter().map(|v| v["schedules"].as_u64().unwrap_or(0)).sum();
    multi_trace = sr.iter().filter(|v| v["distinct_traces"].as_u64().unwrap_or(0) >= 2).count();
    rep.note("sched", json!({"explorations": sr.iter().map(|v| json!({"kind": v["kind"], "programs": v["tuple"], "granularity": v["granularity"], "completed_preemption_bound": v["completed_bound"], "schedules": v["schedules"], "scheduling_points": v["points"], "distinct_interleavings": v["distinct_traces"], "points_per_agent": v["points_per_agent_default_schedule"], "blocked_events": v["blocked_events"], "capped": v["capped"]})).collect::<Vec<_>>(), "total_schedules": total_sched}));
    if let Some(v) = sr.first() {
        rep.note("sched_sites", v["sites"].clone());
    }
    rep.sample(json!({"programs": ["synthesize(u1)", "synthesize(u2)"], "schedule": "agent 0 runs to its 17th point, agent 1 preempts and runs to completion, agent 0 finishes"}));
    });
    // ---------- supplementary free-running pass (sampling; never establishes absence, can only add violations) ----------
    // Real parallelism reaches interleavings between two hook sites (e.g. inside a lock-protected helper a change
    // adds), which the cooperative scheduler cannot produce. Every round uses a freshly built engine shared by all
    // threads (so engine-held state starts cold); the reference comes from a different engine.
    {
        let corpus = labels::corpus();
        let cases: Vec<(usize, Vec<String>, usize)> = vec![(9, corpus[0..tier.pick(6, 12)].to_vec(), tier.pick(6, 20)), (0, utts[1].clone(), tier.pick(20, 100)), (1, utts[1].clone(), tier.pick(20, 100)), (4, utts[1].clone(), tier.pick(20, 100)), (10, corpus[0..14].to_vec(), tier.pick(3, 10))];
        let mut total_runs = 0u64;
        let mut mismatches = 0u64;
        for (kind, u, rounds) in &cases {
            let reference = synth(&engine_kind(*kind), u).unwrap_or_default();
            for round in 0..*rounds {
                let e = Arc::new(engine_kind(*kind));
                let nthr = 8usize;
                let barrier = Arc::new(std::sync::Barrier::new(nthr));
                let bad = AtomicU64::new(0);
                std::thread::scope(|s| {
                    for t in 0..nthr {
                        let e = e.clone();
                        let barrier = barrier.clone();
                        let bad = &bad;
                        let reference = &reference;
                        s.spawn(move || {
                            // every thread passes the barrier before it touches the engine (a panic in the code
                            // under test must not leave the others waiting), then all of them run the whole call
                            barrier.wait();
                            let r = catch(|| {
                                if (t + round) % 3 == 2 {
                                    // a clone used concurrently with the original
                                    let c = (*e).clone();
                                    c.synthesize(&u[..]).ok()
                                } else {
                                    e.generator(&u[..]).ok().map(|g| g.generate_all())
                                }
                            });
                            match r {
                                Ok(Some(w)) if bits_eq(&w, reference) => {}
                                _ => {
                                    bad.fetch_add(1, Ordering::Relaxed);
                                }
                            }
                        });
                    }
                });
                total_runs += nthr as u64;
                mismatches += bad.load(Ordering::Relaxed);
            }
        }
        // second kind of round: the threads speak five different utterances (all of the same number of labels, one of them silence
        // only; three of them shared by two threads each), every thread with its own settings (warping, volume, postfilter, GV weight) on its own copy of the engine - what differs
        // between concurrent calls is exactly what a process-wide cache with too coarse a key, or one updated in two steps,
        // would mix up.  References are computed one after the other beforehand.
        {
            let sil: Vec<String> = corpus.iter().filter(|l| labels::centre(l) == "sil" || labels::centre(l) == "pau").take(3).cloned().collect();
            let mut cfgs: Vec<(Engine, Vec<String>, f64, Vec<f64>)> = Vec::new();
            for t in 0..8usize {
                let mut e = engine_kind(if t % 4 == 3 { 1 } else { 9 });
                let vol = [-6.0, 0.0, 6.0, 20.0, -12.5, 7.25, 0.5, -0.001][t];
                e.condition.set_alpha([0.3, 0.42, 0.55, 0.6][t % 4]);
                e.condition.set_beta([0.3, 0.0, 0.2, 0.4][(t / 2) % 4]);
                e.condition.set_gv_weight(0, [1.0, 0.5, 1.5, 2.0][t % 4]);
                e.condition.set_volume(vol);
                // threads 0/1, 2/3 and 4/5 share an utterance (with different settings); 2/3 speak silence only
                let ui = if t < 6 { t / 2 } else { t };
                let u: Vec<String> = if ui == 1 && sil.len() == 3 { sil.clone() } else { corpus[40 + 97 * ui..43 + 97 * ui].to_vec() };
                let reference = synth(&e, &u).unwrap_or_default();
                cfgs.push((e, u, vol, reference));
            }
            let rounds = tier.pick(12, 60);
            let bad = AtomicU64::new(0);
            let bad_vol = AtomicU64::new(0);
            for _round in 0..rounds {
                let barrier = Arc::new(std::sync::Barrier::new(cfgs.len()));
                std::thread::scope(|s| {
                    for (e, u, vol, reference) in &cfgs {
                        let barrier = barrier.clone();
                        let (bad, bad_vol) = (&bad, &bad_vol);
                        s.spawn(move || {
                            barrier.wait();
                            // a burst of setter calls on this thread's own copy, while the other threads do the same with
                            // other values on theirs
                            let burst = catch(|| {
                                let mut c = e.clone();
                                let mut wrong = 0u64;
                                for k in 0..2000u32 {
                                    c.condition.set_volume(*vol);
                                    if !((c.condition.get_volume() - vol).abs() <= 1e-9) {
                                        wrong += 1;
                                    }
                                    c.condition.set_alpha(0.1 + (k % 7) as f64 * 0.1);
                                    if c.condition.get_alpha().to_bits() != (0.1 + (k % 7) as f64 * 0.1).to_bits() {
                                        wrong += 1;
                                    }
                                }
                                wrong
                            });
                            bad_vol.fetch_add(burst.unwrap_or(1), Ordering::Relaxed);
                            for _ in 0..3 {
                                let r = catch(|| {
                                    let mut c = e.clone();
                                    c.condition.set_volume(*vol);
                                    let back = c.condition.get_volume();
                                    (c.synthesize(&u[..]).ok(), back)
                                });
                                match r {
                                    Ok((Some(w), back)) => {
                                        if !bits_eq(&w, reference) {
                                            bad.fetch_add(1, Ordering::Relaxed);
                                        }
                                        if !((back - vol).abs() <= 1e-9) {
                                            bad_vol.fetch_add(1, Ordering::Relaxed);
                                        }
                                    }
                                    _ => {
                                        bad.fetch_add(1, Ordering::Relaxed);
                                    }
                                }
                            }
                        });
                    }
                });
                total_runs += 3 * cfgs.len() as u64;
            }
            mismatches += bad.load(Ordering::Relaxed);
            if bad.load(Ordering::Relaxed) + bad_vol.load(Ordering::Relaxed) > 0 {
                rep.violation("free-run-mixed", format!("8 threads, each with its own utterance and settings on its own copy of the engine: {} syntheses differ from the same call made alone, {} setter read-backs are wrong", bad.load(Ordering::Relaxed), bad_vol.load(Ordering::Relaxed)), json!({"part": "free-run", "note": "real threads; not schedule-replayable"}));
            }
        }
        rep.eval(total_runs);
        rep.note("free_running_threads", json!({"thread_runs": total_runs, "mismatches": mismatches, "note": "supplementary sampling pass (8 real threads per round on a freshly built shared engine, barrier start); can only add violations"}));
        if mismatches > 0 {
            rep.violation("free-run-output", format!("{} of {} free-running concurrent syntheses on one shared (freshly built) engine differ from the single-threaded waveform", mismatches, total_runs), json!({"part": "free-run", "note": "real threads; not schedule-replayable"}));
        }
    }
    rep.sample_last(json!({"setter_history": ["Gv(1, 1e300)", "Rate(18446744073709551615)", "<canonical assignment>"]}));
    rep.guard(total_sched > 50, "too few schedules explored");
    rep.guard(multi_trace > 0, "no exploration saw two different interleavings");
    rep.finish_ref()
}

pub fn replay(v: &Value) -> i32 {
    match v["part"].as_str() {
        Some("sched") => {
            let kind = v["voice_kind"].as_u64().unwrap_or(0) as usize;
            let tuple: Vec<usize> = v["programs"].as_array().cloned().unwrap_or_default().iter().filter_map(|x| x.as_u64().map(|y| y as usize)).collect();
            let choices: Vec<usize> = v["choices"].as_array().cloned().unwrap_or_default().iter().filter_map(|x| x.as_u64().map(|y| y as usize)).collect();
            let gran = v["granularity"].as_u64().unwrap_or(0) as u8;
            match run_sched_child(kind, &tuple, 0, gran, 60, Some(&choices)) {
                Ok(r) => {
                    println!("{}", r);
                    if r["violation"].is_null() {
                        0
                    } else {
                        1
                    }
                }
                Err(e) => {
                    println!("replay failed: {}", e);
                    2
                }
            }
        }
        Some("proc") => {
            let (a, b) = (v["first"].as_u64().unwrap_or(0) as usize, v["second"].as_u64().unwrap_or(0) as usize);
            let (solo, after) = (run_proc_child(NONE, b), run_proc_child(a, b));
            println!("second alone : {}", &solo[..solo.len().min(100)]);
            println!("after first  : {}", &after[..after.len().min(100)]);
            if solo == after {
                println!("replay: {} is unaffected by {} earlier in the process", v["second_item"], v["first_item"]);
                0
            } else {
                println!("MISMATCH: {} differs when {} ran earlier in the process", v["second_item"], v["first_item"]);
                1
            }
        }
        Some("copies") => {
            let kind = v["voice_kind"].as_u64().unwrap_or(2) as usize;
            let act = Act::from_json(&v["act"]).expect("action");
            match clone_case(kind, &act, v["variant"].as_u64().unwrap_or(0) as usize) {
                Ok(()) => {
                    println!("replay: copies are independent for {:?}", act);
                    0
                }
                Err(m) => {
                    println!("MISMATCH: {}", m);
                    1
                }
            }
        }
        Some("hist") => {
            println!("history: {}", v["history"]);
            println!("re-run `./run C03 quick` – histories are replayed from the initial state by the explorer; the file lists the literal calls");
            0
        }
        _ => {
            println!("{}", v);
            0
        }
    }
}
