//! C08 – Speaking rate scales the utterance, never below one frame per state.
//! SCOPE: full product of (mean, variance) alphabets per state × speed lattice incl. the rounding
//! boundaries of every reachable total; oracle = closed-form laws of the statement.

use crate::common::*;
use crate::gen::labels;
use jbonsai::duration::DurationEstimator;
use jbonsai::model::MeanVari;
use serde_json::json;
use std::sync::atomic::{AtomicU64, Ordering};

const MEANS: [f64; 7] = [0.2, 0.49, 0.5, 1.5, 2.5, 10.0, 60.0];
const VARS: [f64; 4] = [0.0, 1e-3, 1.0, 400.0];
const SPEEDS: [f64; 11] = [0.1, 0.25, 0.5, 0.999, 1.0, 1.001, 1.2, 1.4, 2.0, 4.0, 50.0];

fn is_tie(x: f64) -> bool {
    (x - x.floor() - 0.5).abs() < 1e-9
}

/// returns Some(description) on violation
fn check_model(p: &[MeanVari], rep: &Report, ties: &AtomicU64, floors: &AtomicU64) -> Option<(String, String, f64)> {
    let ns = p.len();
    // the states-per-phoneme argument only matters for alignment; create() must not depend on it (1, the whole length,
    // a divisor or a non-divisor of the length)
    let nstate_arg = [1usize, ns.max(1), 2, 5, 3][(ns + p.iter().map(|m| m.0 as usize).sum::<usize>()) % 5];
    let est = DurationEstimator::new(p.to_vec(), nstate_arg);
    let d1 = match catch(|| est.create(1.0)) {
        Ok(d) => d,
        Err(e) => return Some(("panic".into(), e, 1.0)),
    };
    rep.eval(1);
    if d1.len() != ns {
        return Some(("speed1-len".into(), format!("create(1.0) returned {} durations for {} states", d1.len(), ns), 1.0));
    }
    for (d, mv) in d1.iter().zip(p) {
        let lo = mv.0.floor().max(1.0) as usize;
        let hi = mv.0.ceil().max(1.0) as usize;
        let want = mv.0.round().max(1.0) as usize;
        let ok = if is_tie(mv.0) { *d == lo || *d == hi } else { *d == want };
        if !ok {
            return Some(("speed1-round".into(), format!("speed 1: state mean {} got {} frames, want max(round,1)={}", mv.0, d, want), 1.0));
        }
        if mv.0 < 0.5 {
            floors.fetch_add(1, Ordering::Relaxed);
        }
    }
    let f1: usize = d1.iter().sum();
    let mut speeds: Vec<f64> = SPEEDS.to_vec();
    for k in [ns, ns + 1, f1 / 2, f1.saturating_sub(1).max(1), f1 + 1, 2 * f1] {
        if k >= 1 {
            for e in [-1e-9, 1e-9] {
                speeds.push(f1 as f64 / (k as f64 + 0.5) * (1.0 + e));
            }
            speeds.push(f1 as f64 / (k as f64 + 0.5));
        }
    }
    speeds.retain(|s| *s >= 0.1 && *s <= 50.0);
    speeds.sort_by(|a, b| a.partial_cmp(b).unwrap());
    let mut prev = usize::MAX;
    for s in speeds {
        let d = match catch(|| est.create(s)) {
            Ok(d) => d,
            Err(e) => return Some(("panic".into(), e, s)),
        };
        rep.eval(1);
        rep.cmp(3);
        let tot: usize = d.iter().sum();
        if tot % 16 == 3 {
            rep.outcome(fnv(format!("{:?}", d).as_bytes()));
        }
        let x = f1 as f64 / s;
        let tie = is_tie(x);
        if tie {
            ties.fetch_add(1, Ordering::Relaxed);
        }
        let want = (x.round() as usize).max(ns);
        let want2 = if tie { (x.floor() as usize).max(ns) } else { want };
        let want3 = if tie { (x.ceil() as usize).max(ns) } else { want };
        if d.len() != ns {
            return Some(("len".into(), format!("speed {}: {} durations for {} states", s, d.len(), ns), s));
        }
        if s != 1.0 && tot != want && tot != want2 && tot != want3 {
            return Some(("total".into(), format!("speed {}: total {} frames, want max(round({}/{})={}, {})", s, tot, f1, s, x.round(), ns), s));
        }
        if d.iter().any(|x| *x < 1) {
            return Some(("floor".into(), format!("speed {}: a state got 0 frames: {:?}", s, d), s));
        }
        if tot > prev && !tie {
            return Some(("monotone".into(), format!("speed {}: total {} exceeds total {} at the previous (slower) speed", s, tot, prev), s));
        }
        prev = prev.min(tot);
        if tot == ns && x.round() < ns as f64 {
            floors.fetch_add(1, Ordering::Relaxed);
        }
    }
    None
}

pub fn run(tier: Tier) -> i32 {
    let rep = Report::new("C08", tier, "model_checking");
    rep.set_rule("SCOPE: full product over states 1..N of (mean in {0.2,0.49,0.5,1.5,2.5,10,60}) x (variance in {0,1e-3,1,400}) x speed lattice {0.1..50} plus F1/(k+0.5)(1±1e-9) rounding boundaries, on the real DurationEstimator::create (constructed with states-per-phoneme 1, 2, 3, 5 or the whole length); plus long utterances (200 and 1500 states, totals up to 10^6 frames; 4095..8201 states, thorough 32772; one loose state among 119..199 tight ones, which takes more than 2^16 frames at speed 0.1); distinct = distinct (model, speed) pairs; non-trivial = every case (each evaluates the total-frames law)");
    rep.assume("means/variances/speeds outside the listed alphabets are not explored; at exact .5 ties either rounding is accepted");
    let max_states = tier.pick(4usize, 5usize);
    let per = MEANS.len() * VARS.len();
    let ties = AtomicU64::new(0);
    let floors = AtomicU64::new(0);
    let mut nmodels = 0u64;
    for ns in 1..=max_states {
        let total = per.pow(ns as u32);
        nmodels += total as u64;
        rep.par_for(total, 64, "C08 part 1", |code| {
            let mut c = code;
            let mut p = Vec::new();
            for _ in 0..ns {
                let ch = c % per;
                c /= per;
                p.push(MeanVari(MEANS[ch % 7], VARS[ch / 7]));
            }
            if let Some((k, what, s)) = check_model(&p, &rep, &ties, &floors) {
                rep.violation(k, what, json!({"params": p.iter().map(|m| [m.0, m.1]).collect::<Vec<_>>(), "nstate_arg": 1, "speed": s}));
            }
        });
    }
    // long utterances (totals of 10^4..10^6 frames at slow speeds): every 1-state pattern repeated 200 times, and a
    // few repeated 1500 times
    {
        let mut long: Vec<(Vec<MeanVari>, usize)> = Vec::new();
        for ch in 0..per {
            long.push((vec![MeanVari(MEANS[ch % 7], VARS[ch / 7])], 200));
        }
        for (a, b) in [(6usize, 0usize), (5, 3), (0, 6)] {
            long.push((vec![MeanVari(MEANS[a], VARS[1]), MeanVari(MEANS[b], VARS[2])], 1500));
        }
        // beyond: sequences of 2^12..2^13 states (thorough: 2^15), patterns with one loose (high-variance) state among tight ones
        let loose: [Vec<MeanVari>; 3] = [
            vec![MeanVari(2.5, 400.0), MeanVari(10.0, 1e-3), MeanVari(1.5, 1.0)],
            vec![MeanVari(60.0, 1.0), MeanVari(0.2, 400.0)],
            vec![MeanVari(10.0, 400.0), MeanVari(2.5, 1.0), MeanVari(2.5, 1.0), MeanVari(2.5, 1.0), MeanVari(1.5, 1e-3)],
        ];
        for (i, n) in tier.pick(vec![4095usize, 4100, 8200], vec![4095, 4100, 8200, 16400, 32771]).into_iter().enumerate() {
            long.push((loose[i % 3].clone(), n));
            long.push((loose[(i + 1) % 3].clone(), n + 1));
        }
        nmodels += long.len() as u64;
        rep.par_for(long.len(), 1, "C08 long utterances", |i| {
            let (pat, n) = &long[i];
            let p: Vec<MeanVari> = (0..*n).map(|k| pat[k % pat.len()]).collect();
            if let Some((k, what, s)) = check_model(&p, &rep, &ties, &floors) {
                rep.violation(k, what, json!({"periodic_pattern": pat.iter().map(|m| [m.0, m.1]).collect::<Vec<_>>(), "states": n, "speed": s}));
            }
        });
    }
    // thorough: 5–6 states on a reduced alphabet, periodic extensions to 200 states
    if tier == Tier::Thorough {
        let red: Vec<MeanVari> = vec![MeanVari(0.2, 1.0), MeanVari(2.5, 1e-3), MeanVari(10.0, 400.0), MeanVari(1.5, 1.0)];
        for ns in 5..=6usize {
            let total = red.len().pow(ns as u32);
            nmodels += total as u64;
            rep.par_for(total, 16, "C08 part 2", |code| {
                let mut c = code;
                let p: Vec<MeanVari> = (0..ns)
                    .map(|_| {
                        let x = red[c % red.len()];
                        c /= red.len();
                        x
                    })
                    .collect();
                if let Some((k, what, s)) = check_model(&p, &rep, &ties, &floors) {
                    rep.violation(k, what, json!({"params": p.iter().map(|m| [m.0, m.1]).collect::<Vec<_>>(), "speed": s}));
                }
            });
        }
        // periodic extensions of every 1..3-state pattern to 200 states
        let mut pats: Vec<Vec<MeanVari>> = Vec::new();
        for ns in 1..=3usize {
            for code in 0..per.pow(ns as u32) {
                let mut c = code;
                pats.push(
                    (0..ns)
                        .map(|_| {
                            let ch = c % per;
                            c /= per;
                            MeanVari(MEANS[ch % 7], VARS[ch / 7])
                        })
                        .collect(),
                );
            }
        }
        nmodels += pats.len() as u64;
        rep.par_for(pats.len(), 8, "C08 part 3", |i| {
            let p: Vec<MeanVari> = (0..200).map(|k| pats[i][k % pats[i].len()]).collect();
            if let Some((k, what, s)) = check_model(&p, &rep, &ties, &floors) {
                rep.violation(k, what, json!({"periodic_pattern": pats[i].iter().map(|m| [m.0, m.1]).collect::<Vec<_>>(), "states": 200, "speed": s}));
            }
        });
    }
    // end-to-end on the bundled voice: frames of the generator vs the law, through Engine
    let corpus = labels::corpus();
    let base = jbonsai::Engine::load(&[BUNDLED]).expect("bundled voice");
    // long sequences with irregular parameters: the bundled voice's own duration Gaussians for 820 labels (4100 states) and
    // for the whole corpus read as one utterance (7280 states), and mixtures drawn by a fixed recurrence from off-lattice values
    {
        let mut seqs: Vec<(String, Vec<MeanVari>)> = Vec::new();
        for n in [820usize, corpus.len()] {
            let labs: Vec<jlabel::Label> = corpus[..n].iter().map(|l| labels::parse(l)).collect();
            let models = jbonsai::model::Models::new(&labs, &base.voices, base.condition.get_interporation_weight());
            seqs.push((format!("bundled voice, corpus[0..{}]", n), models.duration()));
        }
        for (k, n) in [4100usize, 8195].into_iter().enumerate() {
            let mv = [1.2, 1.5, 2.5, 3.4, 4.6, 7.3, 10.0, 21.0];
            let vv = [0.3, 1.0, 4.0, 9.0, 30.0, 120.0];
            let mut x = 12345u64 + k as u64;
            let p: Vec<MeanVari> = (0..n)
                .map(|_| {
                    x = x.wrapping_mul(6364136223846793005).wrapping_add(1442695040888963407);
                    MeanVari(mv[(x >> 33) as usize % mv.len()], vv[(x >> 45) as usize % vv.len()])
                })
                .collect();
            seqs.push((format!("recurrence-mixed, {} states (x <- 6364136223846793005 x + 1442695040888963407 from {})", n, 12345 + k), p));
        }
        // one loose state among tight ones: at slow speeds nearly every extra frame goes to that one state (more than 2^16
        // frames in a single state at speed 0.1)
        for (n, at) in [(120usize, 0usize), (200, 100), (200, 199), (150, 1)] {
            let p: Vec<MeanVari> = (0..n).map(|i| if i == at { MeanVari(60.0, 400.0) } else { MeanVari(60.0, 1e-3) }).collect();
            seqs.push((format!("{} states of mean 60, variance 1e-3, but state {} with variance 400", n, at), p));
        }
        nmodels += seqs.len() as u64;
        rep.par_for(seqs.len(), 1, "C08 long irregular", |i| {
            if let Some((k, what, sp)) = check_model(&seqs[i].1, &rep, &ties, &floors) {
                let what = if what.len() > 600 { format!("{}…", what.chars().take(600).collect::<String>()) } else { what };
                rep.violation(k, format!("{}: {}", seqs[i].0, what), json!({"sequence": seqs[i].0, "states": seqs[i].1.len(), "speed": sp}));
            }
        });
    }
    let stride = tier.pick(181usize, 23usize);
    let starts: Vec<usize> = ((seed() as usize % stride)..corpus.len() - 8).step_by(stride).collect();
    let e2e_speeds = [0.25, 0.5, 0.999, 1.0, 1.2, 1.4, 2.0, 4.0, 50.0];
    let e2e = AtomicU64::new(0);
    rep.par_for(starts.len(), 1, "C08 part 4", |i| {
        let win: Vec<&str> = corpus[starts[i]..starts[i] + if i % 2 == 0 { 3 } else { 8 }].iter().map(|s| s.as_str()).collect();
        let f1 = match catch(|| base.generator(&win[..]).map(|g| g.verif_parameters().1.len())) {
            Ok(Ok(n)) => n,
            other => {
                rep.violation("e2e-panic", format!("generator failed at speed 1: {:?}", other.err()), json!({"labels": win}));
                return;
            }
        };
        let nstates = win.len() * 5;
        let mut prev = usize::MAX;
        for &s in &e2e_speeds {
            let mut e = base.clone();
            e.condition.set_speed(s);
            let r = catch(|| e.synthesize(&win[..]).map(|w| w.len()));
            rep.eval(1);
            e2e.fetch_add(1, Ordering::Relaxed);
            let Ok(Ok(len)) = r else {
                rep.violation("e2e-panic", format!("synthesize failed at speed {}", s), json!({"labels": win, "speed": s}));
                continue;
            };
            let frames = len / 240;
            let x = f1 as f64 / s;
            let want = (x.round() as usize).max(nstates);
            let alt = if is_tie(x) { (x.floor() as usize).max(nstates) } else { want };
            if len % 240 != 0 || (frames != want && frames != alt && s != 1.0) || (s == 1.0 && frames != f1) {
                rep.violation("e2e-total", format!("V0 speed {}: {} frames, want max(round({}/{}),{})={}", s, frames, f1, s, nstates, want), json!({"labels": win, "speed": s}));
            }
            if frames > prev {
                rep.violation("e2e-monotone", format!("V0 speed {}: {} frames > {} at slower speed", s, frames, prev), json!({"labels": win, "speed": s}));
            }
            prev = frames;
        }
    });
    rep.nontrivial.store(rep.evaluations.load(Ordering::Relaxed), Ordering::Relaxed);
    rep.note("bounds", json!({"max_states_full_product": max_states, "means": MEANS, "variances": VARS, "speeds": SPEEDS, "duration_models": nmodels, "exact_ties_seen": ties.load(Ordering::Relaxed), "floor_cases": floors.load(Ordering::Relaxed), "end_to_end_synth": e2e.load(Ordering::Relaxed), "corpus_stride": stride}));
    rep.sample(json!({"params": [[0.2, 1e-3]], "speeds": "lattice + boundaries", "law": "total = max(round(F1/s), states)"}));
    rep.sample(json!({"params": [[60.0, 400.0], [0.49, 1.0], [2.5, 1e-3]], "speed": 1.4}));
    rep.sample_last(json!({"end_to_end": {"labels_from_corpus_line": starts.last(), "speeds": e2e_speeds}}));
    rep.guard(ties.load(Ordering::Relaxed) > 0, "no exact tie exercised");
    rep.guard(floors.load(Ordering::Relaxed) > 0, "one-frame floor never exercised");
    rep.finish()
}

pub fn replay(v: &serde_json::Value) -> i32 {
    let params: Vec<MeanVari> = v["params"].as_array().or(v["periodic_pattern"].as_array()).cloned().unwrap_or_default().iter().map(|x| MeanVari(x[0].as_f64().unwrap_or(1.0), x[1].as_f64().unwrap_or(1.0))).collect();
    let params: Vec<MeanVari> = if let Some(n) = v["states"].as_u64() { (0..n as usize).map(|k| params[k % params.len()]).collect() } else { params };
    let rep = Report::new("C08", Tier::Quick, "model_checking");
    let (t, f) = (AtomicU64::new(0), AtomicU64::new(0));
    match check_model(&params, &rep, &t, &f) {
        None => {
            println!("replay: holds for {} states at every lattice speed", params.len());
            0
        }
        Some((k, what, s)) => {
            println!("replay: {} at speed {}: {}", k, s, what);
            1
        }
    }
}
