//! C02 – Incremental generation equals one-shot synthesis.
//! HIST: stateright model whose state is the call history on a real generator; every transition
//! rebuilds a fresh generator and replays the history through the real methods (generators are not
//! Clone); invariant against the one-shot waveform checked in every state.

use crate::common::*;
use crate::gen::cond::*;
use crate::gen::labels;
use crate::gen::voice::GenCfg;
use jbonsai::Engine;
use serde_json::{json, Value};
use stateright::{Checker, Model, Property};
use std::sync::atomic::{AtomicU64, Ordering};

const SENTINEL: f64 = 123456.789;

#[derive(Clone, Debug, PartialEq, Eq, Hash)]
pub enum Op {
    /// generate_step with a buffer of fp + extra samples
    Step(usize),
    /// synthesized_frames() query
    Frames,
    /// generate_all (terminal)
    Finish,
    /// hand the generator over to a freshly spawned thread: every later call is made there (the type is `Send`)
    Move,
}

#[derive(Clone, Debug, PartialEq, Eq, Hash)]
pub struct HState {
    hist: Vec<Op>,
    finished: bool,
    bad: Option<String>,
}

pub struct GenModel {
    engine: Engine,
    labels: Vec<String>,
    oneshot: Vec<f64>,
    fp: usize,
    nframes: usize,
    extras: Vec<usize>,
    depth: usize,
    /// whether the hand-over to another thread is part of the alphabet (small cases only)
    moves: bool,
    transitions: AtomicU64,
    finish_at: std::sync::Mutex<std::collections::BTreeSet<usize>>,
    mixed_sizes: AtomicU64,
    checked_last: AtomicU64,
    monitor: std::sync::Arc<HangMonitor>,
    /// violating histories as the explorer found them (reported without stateright's path reconstruction)
    found: std::sync::Mutex<Vec<(Vec<Op>, String)>>,
}

/// Replay a history on a fresh real generator and check every clause of the statement.
pub fn replay_history(engine: &Engine, labels: &[String], oneshot: &[f64], hist: &[Op]) -> Result<(), String> {
    let r = catch(|| -> Result<(), String> {
        let g = engine.generator(labels).map_err(|e| format!("generator error: {}", e))?;
        run_ops(g, 0, 0, oneshot, hist)
    });
    match r {
        Ok(x) => x,
        Err(p) => Err(format!("panic: {}", p)),
    }
}

fn run_ops(mut g: jbonsai::speech::SpeechGenerator, mut produced: usize, at: usize, oneshot: &[f64], hist: &[Op]) -> Result<(), String> {
    let fp = g.fperiod();
    let nframes = oneshot.len() / fp.max(1);
    for (i, op) in hist.iter().enumerate().skip(at) {
        match op {
            Op::Step(extra) => {
                let mut buf = vec![SENTINEL; fp + extra];
                let n = g.generate_step(&mut buf);
                if produced < nframes {
                    if n != fp {
                        return Err(format!("op {}: step returned {} before exhaustion (fperiod {})", i, n, fp));
                    }
                    produced += 1;
                    let a = &oneshot[(produced - 1) * fp..produced * fp];
                    if !bits_eq(a, &buf[..fp]) {
                        return Err(format!("op {}: frame {} from generate_step differs from the one-shot waveform", i, produced - 1));
                    }
                } else {
                    if n != 0 {
                        return Err(format!("op {}: exhausted generator returned {}", i, n));
                    }
                    if buf.iter().any(|x| x.to_bits() != SENTINEL.to_bits()) {
                        return Err(format!("op {}: exhausted generator wrote into the buffer", i));
                    }
                }
            }
            Op::Frames => {}
            Op::Finish => {
                let k = produced;
                let rest = g.generate_all();
                let want = &oneshot[k * fp..];
                if !bits_eq(&rest, want) {
                    return Err(format!("op {}: generate_all after {} steps returned {} samples, want the {}-sample suffix of the one-shot waveform (first difference at {:?})", i, k, rest.len(), want.len(), rest.iter().zip(want).position(|(a, b)| a.to_bits() != b.to_bits())));
                }
                return Ok(());
            }
            Op::Move => {
                // the rest of the history runs on a thread that has never touched the library
                return std::thread::scope(|sc| match sc.spawn(move || catch(move || run_ops(g, produced, i + 1, oneshot, hist))).join() {
                    Ok(Ok(r)) => r.map_err(|e| format!("{} (after the generator was moved to a new thread at op {})", e, i)),
                    Ok(Err(p)) => Err(format!("panic: {} (after the generator was moved to a new thread at op {})", p, i)),
                    Err(_) => Err("panic: worker thread died".to_string()),
                });
            }
        }
        let f = g.synthesized_frames();
        if f != produced {
            return Err(format!("op {}: synthesized_frames() = {}, productive steps so far = {}", i, f, produced));
        }
    }
    Ok(())
}

impl Model for GenModel {
    type State = HState;
    type Action = Op;
    fn init_states(&self) -> Vec<HState> {
        let bad = replay_history(&self.engine, &self.labels, &self.oneshot, &[]).err();
        if let Some(b) = &bad {
            self.found.lock().unwrap().push((vec![], b.clone()));
        }
        vec![HState { hist: vec![], finished: false, bad }]
    }
    fn actions(&self, s: &HState, out: &mut Vec<Op>) {
        if s.hist.len() < self.depth && !s.finished && s.bad.is_none() {
            for e in &self.extras {
                out.push(Op::Step(*e));
            }
            out.push(Op::Frames);
            out.push(Op::Finish);
            // one hand-over per history, and only where a call follows it
            if self.moves && s.hist.len() + 1 < self.depth && !s.hist.contains(&Op::Move) {
                out.push(Op::Move);
            }
        }
    }
    fn next_state(&self, s: &HState, a: Op) -> Option<HState> {
        self.transitions.fetch_add(1, Ordering::Relaxed);
        let mut hist = s.hist.clone();
        hist.push(a.clone());
        if a == Op::Finish {
            let k = hist.iter().filter(|o| matches!(o, Op::Step(_))).count().min(self.nframes);
            self.finish_at.lock().unwrap().insert(k);
        }
        let sizes: std::collections::BTreeSet<usize> = hist.iter().filter_map(|o| if let Op::Step(e) = o { Some(*e) } else { None }).collect();
        if sizes.len() >= 2 {
            self.mixed_sizes.fetch_add(1, Ordering::Relaxed);
        }
        let _watch = self.monitor.enter(|| format!("history {:?}", hist));
        let bad = replay_history(&self.engine, &self.labels, &self.oneshot, &hist).err();
        if let Some(b) = &bad {
            self.found.lock().unwrap().push((hist.clone(), b.clone()));
        }
        Some(HState { finished: a == Op::Finish, hist, bad })
    }
    fn properties(&self) -> Vec<Property<Self>> {
        vec![Property::always("chunks equal one-shot", |m: &GenModel, s: &HState| {
            if s.hist.len() == m.depth {
                m.checked_last.fetch_add(1, Ordering::Relaxed);
            }
            s.bad.is_none()
        })]
    }
}

fn op_json(o: &Op, fp: usize) -> Value {
    match o {
        Op::Step(e) => json!({"generate_step_buffer_len": fp + e}),
        Op::Frames => json!("synthesized_frames"),
        Op::Finish => json!("generate_all"),
        Op::Move => json!("move the generator to a new thread"),
    }
}

struct Case {
    name: String,
    engine: Engine,
    labels: Vec<String>,
}

fn tiny_cases(tier: Tier) -> Vec<Case> {
    let corpus = labels::corpus();
    let mut out = Vec::new();
    // generated voices with n = 1: frames = duration floor; vary utterance to get 0..5 frames
    for (cfg, nl) in [
        (GenCfg { nstate: 1, fperiod: 1, wset: 1, ..GenCfg::default() }, 0usize),
        (GenCfg { nstate: 1, fperiod: 4, wset: 1, ..GenCfg::default() }, 1),
        (GenCfg { nstate: 1, fperiod: 4, ns: 2, stage: 2, order: 4, wset: 0, ..GenCfg::default() }, 2),
        (GenCfg { nstate: 1, fperiod: 1, gv: true, ..GenCfg::default() }, 3),
        (GenCfg { nstate: 2, fperiod: 4, dur_scale: 0.5, wset: 2, ..GenCfg::default() }, 2),
        (GenCfg { nstate: 1, fperiod: 4, dur_scale: 1.8, stage: 1, order: 5, log_gain: true, ..GenCfg::default() }, 2),
    ] {
        let mut engine = engine_from_bytes(&cfg.bytes()).expect("generated voice");
        // non-default conditions on half of the cases: the postfilter (beta > 0) makes the coefficients carried
        // from frame to frame differ from the raw spectrum; volume and half tone exercise the remaining plumbing
        let cond = if out.len() % 2 == 1 { "beta=0.4,volume=-6,half_tone=2" } else { "default" };
        if out.len() % 2 == 1 {
            engine.condition.set_beta(0.4);
            engine.condition.set_volume(-6.0);
            engine.condition.set_additional_half_tone(2.0);
        }
        let labels: Vec<String> = corpus[41..41 + nl].to_vec();
        out.push(Case { name: format!("{} labels={} cond={}", cfg.describe(), nl, cond), engine, labels });
    }
    // the same voices with the other condition (so that every voice is seen with the postfilter on and off)
    for (cfg, nl) in [
        (GenCfg { nstate: 1, fperiod: 4, wset: 1, ..GenCfg::default() }, 2usize),
        (GenCfg { nstate: 1, fperiod: 4, ns: 2, stage: 2, order: 4, wset: 0, ..GenCfg::default() }, 2),
    ] {
        let mut engine = engine_from_bytes(&cfg.bytes()).expect("generated voice");
        engine.condition.set_beta(0.3);
        out.push(Case { name: format!("{} labels={} cond=beta=0.3", cfg.describe(), nl), engine, labels: corpus[41..41 + nl].to_vec() });
    }
    // a muted engine (a finite volume so low that the linear gain underflows to exactly 0): frames are still frames
    {
        let cfg = GenCfg { nstate: 1, fperiod: 4, wset: 1, ..GenCfg::default() };
        let mut engine = engine_from_bytes(&cfg.bytes()).expect("generated voice");
        engine.condition.set_volume(-1.0e6);
        out.push(Case { name: format!("{} labels=2 cond=volume=-1e6", cfg.describe()), engine, labels: corpus[41..43].to_vec() });
        // ... and one whose samples are subnormal numbers (around 1e-310)
        let mut engine = engine_from_bytes(&cfg.bytes()).expect("generated voice");
        engine.condition.set_volume(-6200.0);
        out.push(Case { name: format!("{} labels=2 cond=volume=-6200", cfg.describe()), engine, labels: corpus[41..43].to_vec() });
    }
    // settings that are not numbers: a pitch shift of NaN (every voiced frame then has no usable pitch - whatever that is
    // rendered as, it is rendered the same step by step and in one go), and a NaN volume
    {
        let cfg = GenCfg { nstate: 1, fperiod: 4, wset: 1, ..GenCfg::default() };
        let mut engine = engine_from_bytes(&cfg.bytes()).expect("generated voice");
        engine.condition.set_additional_half_tone(f64::NAN);
        engine.condition.set_msd_threshold(1, 0.0);
        out.push(Case { name: format!("{} labels=2 cond=half_tone=NaN,threshold=0", cfg.describe()), engine, labels: corpus[41..43].to_vec() });
        let cfg = GenCfg { nstate: 1, fperiod: 4, ns: 2, stage: 2, order: 4, wset: 0, ..GenCfg::default() };
        let mut engine = engine_from_bytes(&cfg.bytes()).expect("generated voice");
        engine.condition.set_additional_half_tone(f64::INFINITY);
        engine.condition.set_volume(f64::NAN);
        out.push(Case { name: format!("{} labels=2 cond=half_tone=inf,volume=NaN", cfg.describe()), engine, labels: corpus[41..43].to_vec() });
    }
    if tier == Tier::Thorough {
        let cfg = GenCfg { nstate: 3, fperiod: 2, ns: 2, gv: true, ..GenCfg::default() };
        let mut engine = engine_from_bytes(&cfg.bytes()).unwrap();
        engine.condition.set_beta(0.5);
        out.push(Case { name: format!("{} labels=1 cond=beta=0.5", cfg.describe()), engine, labels: corpus[41..42].to_vec() });
    }
    out
}

pub fn run(tier: Tier) -> i32 {
    let rep: &'static Report = Box::leak(Box::new(Report::new("C02", tier, "model_checking")));
    let monitor = std::sync::Arc::new(HangMonitor::start(rep, "C02 generator history"));
    rep.set_rule("HIST (stateright BFS): all call histories over {generate_step with buffer fp, fp+1, 2fp, 3fp; synthesized_frames; generate_all (terminal); on generators of at most 3 frames also: hand the generator to a freshly spawned thread, once per history} up to depth N+3 on real generators of N = 0..5 frames (tiny generated voices, both filter families, 2 and 3 streams, frame periods 1 and 4); every transition rebuilds a fresh generator and replays the history; no state merging; half of the engines with the postfilter on (beta 0.3-0.5), volume and half tone set; one with a NaN pitch shift, one with an infinite pitch shift and a NaN volume; plus on V0 (beta 0.3): constant and cycling buffer sizes to exhaustion and generate_all after exactly k steps for every k, every other one also with a hand-over to a new thread before the first call and half-way; plus one utterance of > 4200 frames: generate_all after k steps for k around every power of two, and stepping to exhaustion; non-trivial = history contains at least one step or finish");
    rep.assume("buffers no larger than 3 x fperiod; what a step does to buffer samples beyond the first fperiod is not constrained");
    let total_states = AtomicU64::new(0);
    let case_no = AtomicU64::new(0);
    // stateright shares work between its threads only every 1500 expanded states, which is coarse for models whose
    // transitions cost a fraction of a millisecond: the cases are explored side by side instead
    let cases = tiny_cases(tier);
    std::thread::scope(|scope| {
    for case in &cases {
        let total_states = &total_states;
        let case_no = &case_no;
        let monitor = &monitor;
        scope.spawn(move || {
        let oneshot = match synth(&case.engine, &case.labels) {
            Ok(w) => w,
            Err(e) => {
                rep.violation("oneshot", format!("one-shot synthesis fails: {}", e), json!({"voice": case.name}));
                return;
            }
        };
        let fp = case.engine.condition.get_fperiod();
        let nframes = oneshot.len() / fp;
        let depth = (nframes + 3).min(tier.pick(6, 7));
        let extras = vec![0, 1, fp, 2 * fp];
        let mut counts = Vec::new();
        for threads in [4usize, 2] {
            // the second exploration only cross-checks the explorer's own determinism; in the quick tier it is
            // skipped for the large cases
            if threads == 2 && counts.first().map(|c| *c > tier.pick(8000, 30000)).unwrap_or(false) {
                counts.push(counts[0]);
                continue;
            }
            let model = GenModel {
                engine: case.engine.clone(),
                labels: case.labels.clone(),
                oneshot: oneshot.clone(),
                fp,
                nframes,
                extras: extras.clone(),
                depth,
                moves: nframes <= 3,
                transitions: Default::default(),
                finish_at: Default::default(),
                mixed_sizes: Default::default(),
                checked_last: Default::default(),
                monitor: monitor.clone(),
                found: Default::default(),
            };
            let checker = model.checker().threads(threads).target_max_depth(depth + 2).spawn_bfs().join();
            counts.push(checker.unique_state_count());
            rep.guard(checker.model().checked_last.load(Ordering::Relaxed) > 0, "invariant never evaluated on histories at the depth bound");
            if threads != 4 {
                continue;
            }
            let tr = checker.model().transitions.load(Ordering::Relaxed);
            total_states.fetch_add(checker.unique_state_count() as u64, Ordering::Relaxed);
            rep.states.fetch_add(checker.unique_state_count() as u64, Ordering::Relaxed);
            rep.transitions.fetch_add(tr, Ordering::Relaxed);
            rep.traces.fetch_add(tr, Ordering::Relaxed);
            rep.eval(tr);
            rep.nontrivial.fetch_add(checker.unique_state_count() as u64 - 1, Ordering::Relaxed);
            let fin = checker.model().finish_at.lock().unwrap().clone();
            rep.note(&format!("case_{}", case_no.fetch_add(1, Ordering::Relaxed)), json!({"voice": case.name, "frames": nframes, "fperiod": fp, "depth": depth, "unique_states": checker.unique_state_count(), "transitions": tr, "finish_after_k_steps": fin, "histories_with_mixed_buffer_sizes": checker.model().mixed_sizes.load(Ordering::Relaxed)}));
            rep.guard((0..=nframes.min(depth - 1)).all(|k| fin.contains(&k)), "generate_all not reached after every k");
            rep.guard(nframes == 0 || checker.model().mixed_sizes.load(Ordering::Relaxed) > 0, "no history with two buffer sizes");
            let found = checker.model().found.lock().unwrap().clone();
            for (hist, what) in found {
                struct L {
                    hist: Vec<Op>,
                }
                let last = L { hist };
                let key = if what.contains("panic") {
                    format!("panic@{}", site_of(&what))
                } else if what.contains("generate_all") {
                    "finish-suffix".to_string()
                } else if what.contains("synthesized_frames") {
                    "frames-query".to_string()
                } else if what.contains("exhausted") {
                    "exhausted".to_string()
                } else {
                    "chunk".to_string()
                };
                rep.violation(key, format!("{} :: history {:?} on {}", what, last.hist, case.name), json!({"voice": case.name, "labels": case.labels, "fperiod": fp, "history": last.hist.iter().map(|o| op_json(o, fp)).collect::<Vec<_>>()}));
            }
            rep.sample(json!({"voice": case.name, "frames": nframes, "history": [op_json(&Op::Step(1), fp), op_json(&Op::Frames, fp), op_json(&Op::Finish, fp)]}));
        }
        if rep.violation_count() == 0 && counts[0] != counts[1] {
            rep.guard(false, &format!("state counts differ between thread counts: {:?}", counts));
        }
        });
    }
    });
    let total_states = total_states.load(Ordering::Relaxed);
    // V0 structured families on a 3-label utterance
    let corpus = labels::corpus();
    let mut v0 = engine_pk(&[0]);
    v0.condition.set_beta(0.3);
    let utt: Vec<String> = corpus[40..43].to_vec();
    match synth(&v0, &utt) {
        Err(e) => rep.violation("oneshot", format!("V0 one-shot fails: {}", e), json!({"voice": "V0"})),
        Ok(oneshot) => {
            let fp = 240;
            let n = oneshot.len() / fp;
            let mut hists: Vec<Vec<Op>> = Vec::new();
            for e in [0usize, 1, fp, 2 * fp] {
                let mut h = vec![Op::Step(e); n + 2];
                h.push(Op::Frames);
                hists.push(h);
            }
            let cyc = [0usize, 1, fp, 2 * fp];
            hists.push((0..n + 2).map(|i| Op::Step(cyc[i % 4])).collect());
            let kstride = tier.pick(3usize, 1usize);
            for k in (0..=n).step_by(kstride).chain([n, n.saturating_sub(1)]) {
                let mut h: Vec<Op> = (0..k).map(|i| Op::Step(cyc[(i + k) % 4])).collect();
                h.push(Op::Finish);
                hists.push(h);
            }
            // the same families with the generator handed to another thread before the first call, and half-way
            let plain: Vec<Vec<Op>> = hists.iter().step_by(2).cloned().collect();
            for h in plain {
                let mut h0 = vec![Op::Move];
                h0.extend(h.iter().cloned());
                hists.push(h0);
                let mut hm = h.clone();
                hm.insert(h.len() / 2, Op::Move);
                hists.push(hm);
            }
            rep.par_for(hists.len(), 1, "C02 part 1", |i| {
                rep.eval(1);
                rep.traces.fetch_add(1, Ordering::Relaxed);
                if let Err(what) = replay_history(&v0, &utt, &oneshot, &hists[i]) {
                    let key = if what.contains("panic") { format!("panic@{}", site_of(&what)) } else if what.contains("generate_all") { "finish-suffix".to_string() } else { "chunk".to_string() };
                    let k = hists[i].iter().filter(|o| matches!(o, Op::Step(_))).count();
                    rep.violation(key, format!("{} :: V0, {} steps then {:?}", what, k, hists[i].last()), json!({"voice": "V0", "labels": utt, "fperiod": fp, "history": hists[i].iter().map(|o| op_json(o, fp)).collect::<Vec<_>>()}));
                }
            });
            rep.note("v0_family", json!({"frames": n, "histories": hists.len(), "finish_k_stride": kstride}));
            rep.sample_last(json!({"voice": "V0", "frames": n, "history": format!("{} steps cycling buffer sizes, then generate_all", n / 2)}));
        }
    }
    // beyond the small scope: one long utterance (thousands of frames), generate_all after k steps for k around every
    // power of two up to the length - block-wise bookkeeping only shows there
    {
        let (le, lutt) = long_case();
        match synth(&le, &lutt) {
            Err(e) => rep.violation("oneshot", format!("long utterance: one-shot fails: {}", e), json!({"voice": "LONG"})),
            Ok(oneshot) => {
                let fp = le.condition.get_fperiod();
                let n = oneshot.len() / fp;
                rep.guard(n > 4200, &format!("long utterance has only {} frames", n));
                let mut ks: Vec<usize> = vec![n.saturating_sub(1), n];
                let mut p2 = 256usize;
                while p2 < n {
                    ks.extend([p2 - 1, p2, p2 + 1]);
                    p2 *= 2;
                }
                ks.sort();
                ks.dedup();
                let mut hists: Vec<Vec<Op>> = ks.iter().filter(|k| **k <= n).map(|k| {
                    let mut h = vec![Op::Step(0); *k];
                    h.push(Op::Finish);
                    h
                }).collect();
                let mut all = vec![Op::Step(0); n + 1];
                all.push(Op::Frames);
                hists.push(all);
                let mut odd: Vec<Op> = (0..n + 1).map(|i| Op::Step(i % 3)).collect();
                odd.push(Op::Frames);
                hists.push(odd);
                for k in [0usize, 1, 1000] {
                    let mut h = vec![Op::Step(0); k];
                    h.push(Op::Move);
                    h.extend(vec![Op::Step(0); 300]);
                    h.push(Op::Finish);
                    hists.push(h);
                }
                rep.par_for(hists.len(), 1, "C02 long utterance", |i| {
                    rep.eval(1);
                    rep.traces.fetch_add(1, Ordering::Relaxed);
                    if let Err(what) = replay_history(&le, &lutt, &oneshot, &hists[i]) {
                        let key = if what.contains("panic") { format!("panic@{}", site_of(&what)) } else if what.contains("generate_all") { "finish-suffix".to_string() } else { "chunk".to_string() };
                        let k = hists[i].iter().filter(|o| matches!(o, Op::Step(_))).count();
                        rep.violation(key, format!("{} :: long utterance ({} frames), {} steps then {:?}", what, n, k, hists[i].last()), json!({"voice": "LONG", "labels": lutt.len(), "fperiod": fp, "steps": k, "then": format!("{:?}", hists[i].last())}));
                    }
                });
                rep.note("long_family", json!({"frames": n, "labels": lutt.len(), "histories": hists.len(), "generate_all_after_k_steps": ks}));
            }
        }
    }
    unwritable_stderr_part(rep, &["finish-after-steps"]);
    rep.guard(total_states > 500, "too few states");
    rep.finish_ref()
}

/// A tiny voice with frame period 1 and an utterance of several thousand frames.
fn long_case() -> (Engine, Vec<String>) {
    let cfg = GenCfg { fperiod: 1, nstate: 2, dur_scale: 4.0, ..GenCfg::default() };
    let mut e = engine_from_bytes(&cfg.bytes()).expect("generated voice");
    e.condition.set_beta(0.3);
    let corpus = labels::corpus();
    (e, corpus[0..360].to_vec())
}

pub fn replay(v: &Value) -> i32 {
    if v["voice"].as_str() == Some("LONG") {
        let (e, utt) = long_case();
        let oneshot = synth(&e, &utt).unwrap_or_default();
        let k = v["steps"].as_u64().unwrap_or(0) as usize;
        let mut h = vec![Op::Step(0); k];
        h.push(if v["then"].as_str() == Some("Some(Frames)") { Op::Frames } else { Op::Finish });
        return match replay_history(&e, &utt, &oneshot, &h) {
            Ok(()) => {
                println!("replay: history holds on the long utterance");
                0
            }
            Err(e) => {
                println!("replay: {}", e);
                1
            }
        };
    }
    // only the literal inputs are needed: voice description is informative, histories are re-run on matching tiny cases
    let name = v["voice"].as_str().unwrap_or("");
    let fp = v["fperiod"].as_u64().unwrap_or(1) as usize;
    let hist: Vec<Op> = v["history"]
        .as_array()
        .cloned()
        .unwrap_or_default()
        .iter()
        .map(|o| {
            if let Some(n) = o.get("generate_step_buffer_len").and_then(|x| x.as_u64()) {
                Op::Step(n as usize - fp)
            } else if o.as_str() == Some("generate_all") {
                Op::Finish
            } else if o.as_str() == Some("move the generator to a new thread") {
                Op::Move
            } else {
                Op::Frames
            }
        })
        .collect();
    let labels: Vec<String> = v["labels"].as_array().cloned().unwrap_or_default().iter().filter_map(|x| x.as_str().map(|s| s.to_string())).collect();
    let engine = if name == "V0" {
        Some({
            let mut e = engine_pk(&[0]);
            e.condition.set_beta(0.3);
            e
        })
    } else {
        tiny_cases(Tier::Thorough).into_iter().find(|c| c.name == name).map(|c| c.engine)
    };
    let Some(engine) = engine else {
        println!("unknown voice {}", name);
        return 2;
    };
    let oneshot = synth(&engine, &labels).unwrap_or_default();
    match replay_history(&engine, &labels, &oneshot, &hist) {
        Ok(()) => {
            println!("replay: history holds");
            0
        }
        Err(e) => {
            println!("replay: {}", e);
            1
        }
    }
}
