//! C16 – Volume is a pure gain in decibels.
use crate::common::*;
use crate::gen::cond::*;
use crate::gen::labels;
use crate::gen::voice::GenCfg;
use crate::props::c20::Act;
use serde_json::json;
use std::sync::atomic::{AtomicU64, Ordering};
use std::sync::Mutex;

pub const VOLS: [f64; 13] = [-60.0, -20.0, -6.0, -0.5, -0.001, 0.0, 0.001, 0.5, 1.0, 2.0, 6.0, 20.0, 60.0];

pub fn run(tier: Tier) -> i32 {
    let rep = Report::new("C16", tier, "model_checking");
    rep.set_rule("SCOPE: volumes {-60,-20,-6,-0.5,-0.001,0,0.001,0.5,1,2,6,20,60} dB x voices (V0 mel-cepstral, generated mel-cepstral, generated LSP 3- and 2-stream, a generated voice with one very quiet state) x short utterances (plus, on one generated voice, the whole corpus twice as one utterance of 2912 labels at -6 and 20 dB) x (default condition + every single further deviation, incl. frame periods of 8193 and 70001 samples on the generated voices); oracle: every sample = 10^(v/20) x the 0 dB sample (rel 1e-12), get_volume within 1e-9, all other getters unchanged; plus a volume set before load_model (equal to setting it afterwards); plus, on a stride, the settings copied with Condition::clone_from / Engine::clone_from onto a scratch object holding other values (same samples); plus streaming use: generate_step into pre-filled buffers of 1x/2x/3x fperiod + 1 samples, where the produced frame is scaled and everything else in the buffer equals the 0 dB run; distinct = (voice, other deviation, utterance, volume); non-trivial = v != 0 and non-empty waveform");
    rep.assume("volume lattice only; comparison skipped on samples that are non-finite in the 0 dB run");
    let corpus = labels::corpus();
    let mut utts: Vec<Vec<String>> = vec![vec![corpus[41].clone()], corpus[40..43].to_vec(), corpus[0..2].to_vec()];
    // beyond the small scope: the whole corpus twice as one utterance (2912 labels, 8736 states on the generated voices) -
    // run on the first generated voice only, default condition, two volumes
    let n_short = utts.len();
    utts.push(corpus.iter().chain(corpus.iter()).cloned().collect());
    let mut voices: Vec<(String, jbonsai::Engine, usize, bool)> = vec![("V0".into(), engine_pk(&[0]), 3, true)];
    for cfg in [
        GenCfg { gv: true, ..GenCfg::default() },
        GenCfg { stage: 2, order: 5, log_gain: true, ..GenCfg::default() },
        GenCfg { stage: 1, order: 6, ns: 2, ..GenCfg::default() },
        GenCfg { stage: 3, order: 5, gv: true, ..GenCfg::default() },
    ] {
        voices.push((cfg.describe(), engine_from_bytes(&cfg.bytes()).expect("generated voice"), cfg.ns, false));
    }
    // a voice with one very quiet state (log gain -10: about 4.5e-5 of the others) - at -60 dB its samples are far below
    // anything audible, and still they are the 0 dB samples times the gain (and the frames after it are unaffected)
    {
        let cfg = GenCfg { nstate: 2, gv: false, ..GenCfg::default() };
        let mut spec = cfg.spec();
        for (_, _, pdfs) in spec.streams[0].model.trees.iter_mut().take(1) {
            for pdf in pdfs.iter_mut() {
                pdf[0] = -10.0;
            }
        }
        voices.push((format!("{} with a quiet first state (c0 = -10)", cfg.describe()), engine_from_bytes(&crate::gen::voice::write(&spec)).expect("generated voice with a quiet state"), cfg.ns, false));
    }
    let worst = Mutex::new(0.0f64);
    let nontriv = AtomicU64::new(0);
    let mut jobs = Vec::new();
    for (vi, v) in voices.iter().enumerate() {
        let mut others: Vec<Vec<Act>> = vec![vec![]];
        for d in deviations(v.2) {
            if matches!(d, Act::Volume(_)) {
                continue;
            }
            // V0 is expensive: restrict its further deviations in the quick tier
            if v.3 && tier == Tier::Quick && !matches!(d, Act::Beta(_) | Act::Speed(_) | Act::Alpha(_) | Act::HalfTone(_) | Act::Gv(0, _)) {
                continue;
            }
            if matches!(d, Act::Speed(s) if s < 1.0) || matches!(d, Act::Fperiod(480)) {
                if v.3 {
                    continue;
                }
            }
            others.push(vec![d]);
        }
        // frame periods far above the usual ones (one frame = 8193 or 70001 samples), on the generated voices
        if !v.3 {
            others.push(vec![Act::Fperiod(8193)]);
            others.push(vec![Act::Fperiod(70001)]);
        }
        for (oi, _) in others.iter().enumerate() {
            for ui in 0..utts.len() {
                if v.3 && ui > 0 && oi > 0 {
                    continue;
                }
                if ui >= n_short && !(vi == 1 && oi == 0) {
                    continue;
                }
                jobs.push((vi, others.clone(), oi, ui));
            }
        }
    }
    rep.par_for(jobs.len(), 1, "C16 part 1", |j| {
        let (vi, others, oi, ui) = &jobs[j];
        let v = &voices[*vi];
        let other = &others[*oi];
        let e0 = with_cond(&v.1, other);
        let u = &utts[*ui];
        let w0 = match synth(&e0, u) {
            Ok(w) => w,
            Err(_) => return, // base failure is C01's business
        };
        let g0 = getters(&e0.condition, v.2);
        for &vol in &VOLS {
            if *ui >= n_short && vol != -6.0 && vol != 20.0 {
                continue;
            }
            let mut e = e0.clone();
            e.condition.set_volume(vol);
            rep.eval(1);
            rep.distinct(fnv(format!("{}|{}|{}|{}", vi, oi, ui, vol).as_bytes()));
            let rp = json!({"voice": v.0, "other_condition": acts_json(other), "labels": u, "volume_db": vol});
            let gv = e.condition.get_volume();
            if !((gv - vol).abs() <= 1e-9) {
                rep.violation("getter", format!("get_volume returns {} after set_volume({})", gv, vol), rp.clone());
            }
            for ((n, a), (_, b)) in getters(&e.condition, v.2).iter().zip(&g0) {
                if n != "volume" && a.to_bits() != b.to_bits() {
                    rep.violation("other-getter", format!("set_volume changed {}: {} -> {}", n, b, a), rp.clone());
                }
            }
            match synth(&e, u) {
                Err(er) => rep.violation("synthesis", format!("synthesis fails at {} dB: {}", vol, er), rp),
                Ok(w) => {
                    // the same settings copied onto a scratch condition / engine with clone_from: same samples
                    if *ui == 0 && (j + (vol.abs() * 10.0) as usize) % 3 == 0 {
                        for whole in [false, true] {
                            rep.cmp(1);
                            match catch(|| synth(&via_clone_from(&e, whole), u)) {
                                Ok(Ok(w2)) if bits_eq(&w2, &w) => {}
                                other => rep.violation("clone-from", format!("an engine that got its settings (volume {} dB) through {}::clone_from onto a scratch object with other values renders differently: {:?}", vol, if whole { "Engine" } else { "Condition" }, other.map(|r| r.map(|x| x.len()))), rp.clone()),
                            }
                        }
                    }
                    rep.outcome(hash_f64s(&w[..w.len().min(256)]));
                    if w.len() != w0.len() {
                        rep.violation("length", format!("{} samples at {} dB vs {} at 0 dB", w.len(), vol, w0.len()), rp);
                        continue;
                    }
                    if vol != 0.0 && !w.is_empty() {
                        nontriv.fetch_add(1, Ordering::Relaxed);
                    }
                    let g = 10f64.powf(vol / 20.0);
                    let mut wr = 0.0f64;
                    let mut bad = None;
                    for (i, (a, b)) in w.iter().zip(&w0).enumerate() {
                        if !b.is_finite() || (b * g).abs() > 1e300 {
                            continue;
                        }
                        rep.cmp(1);
                        if *b == 0.0 {
                            if *a != 0.0 {
                                bad = Some((i, *a, 0.0));
                                break;
                            }
                        } else {
                            let r = (a - b * g).abs() / (b * g).abs();
                            wr = wr.max(r);
                            if !(r <= 1e-12) {
                                bad = Some((i, *a, b * g));
                                break;
                            }
                        }
                    }
                    {
                        let mut w = worst.lock().unwrap();
                        *w = w.max(wr);
                    }
                    if let Some((i, a, b)) = bad {
                        rep.violation("gain", format!("sample {} is {} at {} dB, want 10^(v/20) x 0dB sample = {}", i, a, vol, b), rp);
                    }
                }
            }
        }
    });
    // ---------- streaming use: stepwise generation into oversize, pre-filled buffers ----------
    // "changes nothing else": at v dB every step must leave exactly what the 0 dB run leaves, except that the
    // fperiod samples it produces are scaled by the gain – including whatever lies beyond them in the caller's buffer.
    let stepped = AtomicU64::new(0);
    {
        let step_jobs: Vec<(usize, usize, usize)> = (0..voices.len()).flat_map(|vi| (0..utts.len().min(2)).flat_map(move |ui| [1usize, 2, 3].into_iter().map(move |mult| (vi, ui, mult)))).collect();
        rep.par_for(step_jobs.len(), 1, "C16 part 2", |j| {
            let (vi, ui, mult) = step_jobs[j];
            let v = &voices[vi];
            if v.3 && ui > 0 {
                return;
            }
            let u = &utts[ui];
            let run = |vol: f64| -> Result<Vec<(Vec<f64>, Vec<f64>)>, String> {
                let mut e = v.1.clone();
                e.condition.set_volume(vol);
                catch(|| {
                    let mut g = e.generator(&u[..]).map_err(|x| x.to_string())?;
                    let fp = g.fperiod();
                    let mut out = Vec::new();
                    // a ring of live samples: the tail beyond fperiod holds data the caller has not consumed yet
                    let mut buf: Vec<f64> = (0..fp * mult + 1).map(|i| 0.25 + i as f64).collect();
                    loop {
                        let n = g.generate_step(&mut buf);
                        if n == 0 {
                            break;
                        }
                        out.push((buf[..fp].to_vec(), buf[fp..].to_vec()));
                        if out.len() > 100_000 {
                            break;
                        }
                    }
                    Ok::<_, String>(out)
                })
                .unwrap_or_else(|p| Err(format!("panic: {}", p)))
            };
            let Ok(base) = run(0.0) else { return };
            for &vol in &[-60.0, -6.0, 20.0] {
                rep.eval(1);
                stepped.fetch_add(1, Ordering::Relaxed);
                let rp = json!({"voice": v.0, "labels": u, "volume_db": vol, "mode": format!("generate_step into a pre-filled buffer of {} x fperiod + 1 samples", mult)});
                match run(vol) {
                    Err(er) => rep.violation("step-synthesis", format!("stepwise generation fails at {} dB: {}", vol, er), rp),
                    Ok(got) => {
                        let g = 10f64.powf(vol / 20.0);
                        if got.len() != base.len() {
                            rep.violation("step-frames", format!("{} frames at {} dB vs {} at 0 dB", got.len(), vol, base.len()), rp);
                            continue;
                        }
                        for (fi, ((a, ta), (b, tb))) in got.iter().zip(&base).enumerate() {
                            rep.cmp(2);
                            let body_ok = a.iter().zip(b).all(|(x, y)| if !y.is_finite() { true } else if *y == 0.0 { *x == 0.0 } else { ((x - y * g) / (y * g)).abs() <= 1e-12 });
                            if !body_ok {
                                rep.violation("step-gain", format!("frame {}: stepwise samples at {} dB are not 10^(v/20) x the 0 dB samples", fi, vol), rp.clone());
                                break;
                            }
                            if !bits_eq(ta, tb) {
                                rep.violation("step-side-effect", format!("frame {}: at {} dB generate_step leaves different data beyond its fperiod samples in the caller's buffer than at 0 dB", fi, vol), rp.clone());
                                break;
                            }
                        }
                    }
                }
            }
        });
    }
    rep.note("stepwise_cases", json!(stepped.load(Ordering::Relaxed)));
    rep.nontrivial.store(nontriv.load(Ordering::Relaxed), Ordering::Relaxed);
    // a volume chosen before the voices are bound (Condition::default, set_volume, load_model, Engine::new): the setting
    // is the caller's, not the voice's; it must be in force exactly as when it is set after loading
    {
        let cfg = GenCfg { nstate: 2, ..GenCfg::default() };
        let voice = std::sync::Arc::new(load_voice_bytes(&cfg.bytes()).expect("generated voice"));
        let u = vec![labels::corpus()[41].clone(), labels::corpus()[42].clone()];
        for &vol in &[-12.5, 6.0] {
            rep.eval(1);
            let r = catch(|| -> Result<(Vec<f64>, f64, Vec<f64>), String> {
                let vs = jbonsai::model::VoiceSet::new(vec![voice.clone()]).map_err(|e| e.to_string())?;
                let mut c = jbonsai::Condition::default();
                c.set_volume(vol);
                c.load_model(&vs).map_err(|e| e.to_string())?;
                let before = jbonsai::Engine::new(vs.clone(), c);
                let mut after = engine_from_voices(vec![voice.clone()]).map_err(|e| e.to_string())?;
                after.condition.set_volume(vol);
                Ok((before.synthesize(&u[..]).map_err(|e| e.to_string())?, before.condition.get_volume(), after.synthesize(&u[..]).map_err(|e| e.to_string())?))
            });
            rep.cmp(2);
            match r {
                Ok(Ok((wb, gv, wa))) => {
                    if !bits_eq(&wb, &wa) || (gv - vol).abs() > 1e-9 {
                        rep.violation("set-before-load", format!("set_volume({}) before load_model: get_volume {} and the waveform {} the one obtained by setting it after loading", vol, gv, if bits_eq(&wb, &wa) { "equals" } else { "differs from" }), json!({"voice": cfg.describe(), "volume_db": vol, "labels": u}));
                    }
                }
                other => rep.violation("set-before-load", format!("set_volume before load_model fails: {:?}", other.map(|_| ())), json!({"voice": cfg.describe(), "volume_db": vol})),
            }
        }
    }
    rep.note("bounds", json!({"volumes_db": VOLS, "voices": voices.iter().map(|v| v.0.clone()).collect::<Vec<_>>(), "utterances": utts.len(), "jobs": jobs.len(), "worst_relative_gain_error": *worst.lock().unwrap()}));
    rep.sample(json!({"voice": "V0", "other_condition": [], "labels": utts[0], "volume_db": -60.0}));
    rep.sample_last(json!({"voice": voices.last().unwrap().0, "other_condition": "Rate(96000)", "labels": utts[2], "volume_db": 60.0}));
    rep.guard(nontriv.load(Ordering::Relaxed) > 100, "too few non-trivial cases");
    rep.finish()
}
