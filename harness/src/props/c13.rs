//! C13 – The LSP synthesis filter realises the model spectrum.
//! SCOPE: all gap compositions (small orders) / uniform + single-gap variations (large orders)
//! × stages × alpha × gain convention × K; oracle = K / |A(e^{j w~})|^s with A built by
//! polynomial multiplication of the LSP factors.

use crate::common::*;
use crate::oracle::dsp::*;
use jbonsai::vocoder::Vocoder;
use serde_json::json;
use std::f64::consts::PI;
use std::sync::atomic::{AtomicU64, Ordering};
use std::sync::Mutex;

fn lsp_sets(order: usize, full_upto: usize) -> Vec<Vec<f64>> {
    let mut sets = Vec::new();
    let mk = |gaps: &[f64]| -> Vec<f64> {
        let total: f64 = gaps.iter().sum();
        let mut acc = 0.0;
        (0..order)
            .map(|i| {
                acc += gaps[i];
                PI * acc / total
            })
            .collect()
    };
    if order <= full_upto {
        let n = order + 1;
        for code in 0..3usize.pow(n as u32) {
            let mut x = code;
            let gaps: Vec<f64> = (0..n)
                .map(|_| {
                    let g = [1.0, 2.0, 4.0][x % 3];
                    x /= 3;
                    g
                })
                .collect();
            sets.push(mk(&gaps));
        }
    } else {
        let uniform = vec![2.0; order + 1];
        sets.push(mk(&uniform));
        for g in 0..=order {
            for v in [1.0, 4.0] {
                let mut gaps = uniform.clone();
                gaps[g] = v;
                sets.push(mk(&gaps));
            }
        }
    }
    // the slowest legal decays: the first (or last) two gaps at the smallest legal spacing pi/(4(order+1)) - a sharp
    // resonance at the very bottom (top) of the axis, whose pulse response rings for tens of thousands of samples
    {
        let n = order + 1;
        for at_top in [false, true] {
            let mut gaps = vec![2.0; n];
            // after normalisation a gap of g units is pi g / total; with two gaps of x: total = 2(n-2) + 2x, and
            // pi x / total = pi / (4 n)  =>  x = 2(n-2) / (4n - 2)
            let x = 2.0 * (n as f64 - 2.0) / (4.0 * n as f64 - 2.0) * 1.02;
            if n >= 3 && x > 0.0 {
                let (a, b) = if at_top { (n - 1, n - 2) } else { (0, 1) };
                gaps[a] = x;
                gaps[b] = x;
                sets.push(mk(&gaps));
            }
        }
    }
    sets
}

/// returns the pulse responses of the first and of the second (stationary) frame
fn response(order: usize, stage: usize, log_gain: bool, alpha: f64, beta: f64, params: &[f64], max_rate: usize) -> Result<(Vec<f64>, usize, f64, Vec<f64>), String> {
    response_vol(order, stage, log_gain, alpha, beta, params, max_rate, 1.0)
}
/// the same on a vocoder constructed with an output volume (a linear factor on every sample): responses are returned divided by it
#[allow(clippy::too_many_arguments)]
fn response_vol(order: usize, stage: usize, log_gain: bool, alpha: f64, beta: f64, params: &[f64], max_rate: usize, volume: f64) -> Result<(Vec<f64>, usize, f64, Vec<f64>), String> {
    let mut rate = 8000usize;
    loop {
        let t0 = rate / 20;
        let p = params.to_vec();
        let (buf, buf2) = catch(move || {
            let mut v = Vocoder::new(order + 1, 0, stage, log_gain, rate, alpha, beta, volume, t0);
            let mut buf = vec![0.0; t0];
            v.synthesize(20f64.ln(), &p, &[], &mut buf);
            let mut buf2 = vec![0.0; t0];
            v.synthesize(20f64.ln(), &p, &[], &mut buf2);
            (buf, buf2)
        })?;
        let s = (t0 as f64).sqrt() * volume;
        let h: Vec<f64> = buf[..t0 - 2].iter().map(|x| x / s).collect();
        let h2: Vec<f64> = buf2[..t0 - 2].iter().map(|x| x / s).collect();
        if h.iter().chain(h2.iter()).any(|x| !x.is_finite()) {
            return Ok((h, rate, f64::NAN, h2));
        }
        let peak = h.iter().fold(0.0f64, |a, b| a.max(b.abs()));
        let tail = h[h.len() - h.len() / 20..].iter().fold(0.0f64, |a, b| a.max(b.abs())) / peak.max(1e-300);
        if tail < 1e-9 || rate >= max_rate {
            return Ok((h, rate, tail, h2));
        }
        rate *= 4;
    }
}

/// One pulse followed by `n` samples of silence in frames of 80 samples (constant parameters): (peak of the first 2000 samples,
/// largest magnitude in the last tenth, all finite). An instability that starts from rounding noise needs thousands of samples
/// to show.
fn long_response(order: usize, stage: usize, alpha: f64, beta: f64, params: &[f64], n: usize) -> Result<(f64, f64, bool), String> {
    let p = params.to_vec();
    catch(move || {
        let fp = 80usize;
        let rate = 20 * (n + fp);
        let mut v = Vocoder::new(order + 1, 0, stage, false, rate, alpha, beta, 1.0, fp);
        let mut out = Vec::with_capacity(n);
        let mut buf = vec![0.0; fp];
        while out.len() < n {
            v.synthesize(20f64.ln(), &p, &[], &mut buf);
            out.extend_from_slice(&buf);
        }
        let head = out[..2000.min(out.len())].iter().fold(0.0f64, |a, b| a.max(b.abs()));
        let tail = out[out.len() - out.len() / 10..].iter().fold(0.0f64, |a, b| a.max(b.abs()));
        (head, tail, out.iter().all(|x| x.is_finite()))
    })
}

pub fn run(tier: Tier) -> i32 {
    let rep = Report::new("C13", tier, "model_checking");
    let nfreq = tier.pick(33usize, 129usize);
    let full_upto = tier.pick(4usize, 6usize);
    let orders: Vec<usize> = tier.pick((2..=24).filter(|o| *o <= 8 || o % 4 == 0 || *o == 23).collect(), (2..=24).collect());
    let stages: &[usize] = &[1, 2, 3, 4];
    let alphas = [0.0, 0.3, 0.6];
    rep.set_rule("SCOPE: LSP orders x stages 1..4 x alpha {0,.3,.6} x {linear, log} gain x K {0.5,1,2}; LSP sets = all compositions of the order+1 gaps from {1,2,4} units (orders up to the full bound) or uniform + every single gap narrowed/widened (larger orders), plus for every order the two sets whose first (last) two gaps have the smallest legal spacing, all with spacing >= pi/(4(order+1)); real Vocoder pulse responses of the first and the second frame at F0=20Hz, and on every 5th case the 3rd/4th frame after a first frame with another gain (same frequencies) or with other frequencies; plus finiteness and decay with the LSP postfilter on (beta 1e-200..1, orders 3, 4, 10, 24, incl. the closest legal pairs); plus every stage 5..128 once (vocoder output volume 1, 2 or 1/4; orders 2..4, a mildly uneven LSP set whose spectrum stays measurable after the power s); plus one thread visiting orders 24,3,23,2,16,5,.. in turn; plus vocoders cloned in the middle of a 7-frame run compared bit for bit with the original; oracle ln K - s ln|A(e^{jw~})| within 0.001 Np at grid frequencies within 100 dB of the peak, response finite and decaying; distinct = (order, stage, alpha, gain form, K, LSP set)");
    rep.assume("LSP sets on the gap lattice only; nominal rate raised (8k..8M) only to lengthen T0 until the truncated tail is < 1e-9 of the peak");
    let mut cases: Vec<(usize, usize, f64, bool, f64, Vec<f64>)> = Vec::new();
    for &order in &orders {
        let sets = lsp_sets(order, full_upto);
        for (si, set) in sets.iter().enumerate() {
            for &stage in stages {
                for (ai, &alpha) in alphas.iter().enumerate() {
                    for lg in [false, true] {
                        for (ki, &k) in [0.5, 1.0, 2.0].iter().enumerate() {
                            // K and gain form are pure scalings: attach them round-robin instead of a full product for larger orders
                            if order > full_upto && (si + stage + ai) % 3 != ki {
                                continue;
                            }
                            cases.push((order, stage, alpha, lg, k, set.clone()));
                        }
                    }
                }
            }
        }
    }
    let worst = Mutex::new((0.0f64, String::new()));
    let grid = freq_grid(nfreq);
    rep.par_for(cases.len(), 2, "C13 part 1", |i| {
        let (order, stage, alpha, lg, k, set) = &cases[i];
        let mut params = vec![if *lg { k.ln() } else { *k }];
        params.extend(set.iter());
        rep.eval(1);
        rep.distinct(hash_f64s(&params) ^ ((*stage as u64) << 40) ^ alpha.to_bits().rotate_left(7) ^ (*lg as u64));
        let rp = json!({"order": order, "stage": stage, "alpha": alpha, "log_gain": lg, "params_gain_then_lsp": params, "f0_hz": 20});
        match response(*order, *stage, *lg, *alpha, 0.0, &params, 8_000_000) {
            Err(p) => rep.violation(format!("panic@{}", site_of(&p)), p, rp),
            Ok((h, _rate, tail, h2)) => {
                if tail.is_nan() {
                    rep.violation("diverges", format!("response to well-separated increasing LSPs is not finite (order {}, stage {}, alpha {})", order, stage, alpha), rp);
                    return;
                }
                if tail > 1e-6 {
                    let peak = h.iter().fold(0.0f64, |a, b| a.max(b.abs()));
                    if peak > 1e6 {
                        rep.violation("diverges", format!("response does not decay (peak {:e}, order {}, stage {}, alpha {})", peak, order, stage, alpha), rp);
                    } else {
                        rep.guard(false, &format!("tail {:e} too large to measure order {} stage {}", tail, order, stage));
                    }
                    return;
                }
                rep.outcome(hash_f64s(&h2[..h2.len().min(64)]));
                let a = lsp_to_a(set);
                let want: Vec<f64> = grid.iter().map(|w| k.ln() - *stage as f64 * poly_logmag(&a, warp(*w, *alpha))).collect();
                let peak = want.iter().cloned().fold(f64::NEG_INFINITY, f64::max);
                let mut err = 0.0f64;
                for (w, wnt) in grid.iter().zip(&want) {
                    if *wnt < peak - 100.0 * std::f64::consts::LN_10 / 20.0 {
                        continue;
                    }
                    rep.cmp(2);
                    err = err.max((logmag(&h, *w) - wnt).abs());
                    // the second frame is the stationary regime (coefficients no longer interpolated from the first call's)
                    err = err.max((logmag(&h2, *w) - wnt).abs());
                }
                {
                    let mut wo = worst.lock().unwrap();
                    if err > wo.0 {
                        *wo = (err, format!("order {} stage {} alpha {} lg {} K {}", order, stage, alpha, lg, k));
                    }
                }
                if !(err <= 0.001) {
                    rep.violation("spectrum", format!("|H| deviates {:.5} Np from K/|A(e^jw~)|^s (order {}, stage {}, alpha {}, log_gain {}, K {})", err, order, stage, alpha, lg, k), rp.clone());
                    return;
                }
                // stationary after a change: a frame with another gain (same frequencies), or with other frequencies,
                // then the case's parameters three times; the 3rd and 4th frame must realise the case's spectrum
                if i % 5 != 0 {
                    return;
                }
                for variant in 0..2usize {
                    let mut first = params.clone();
                    if variant == 0 {
                        first[0] = if *lg { (k * 1.7).ln() } else { k * 1.7 };
                    } else {
                        // other frequencies: half way to uniform spacing (a flatter spectrum, so that this frame's own
                        // pulse response has died out well before the measured frames; still increasing, well separated)
                        let n = first.len() - 1;
                        for (i, f) in first[1..].iter_mut().enumerate() {
                            let u = PI * (i + 1) as f64 / (n + 1) as f64;
                            *f = u + (*f - u) * 0.5;
                        }
                    }
                    let (o, st, l, al, rate, p2) = (*order, *stage, *lg, *alpha, _rate, params.clone());
                    let r = catch(move || {
                        let t0 = rate / 20;
                        let mut v = Vocoder::new(o + 1, 0, st, l, rate, al, 0.0, 1.0, t0);
                        let mut out = Vec::new();
                        for fi in 0..4 {
                            let mut buf = vec![0.0; t0];
                            v.synthesize(20f64.ln(), if fi == 0 { &first } else { &p2 }, &[], &mut buf);
                            let sc = (t0 as f64).sqrt();
                            out.push(buf[..t0 - 2].iter().map(|x| x / sc).collect::<Vec<f64>>());
                        }
                        out
                    });
                    rep.eval(1);
                    match r {
                        Err(p) => rep.violation(format!("panic@{}", site_of(&p)), p, rp.clone()),
                        Ok(fr) => {
                            let mut e2 = 0.0f64;
                            for (w, wnt) in grid.iter().zip(&want) {
                                if *wnt < peak - 100.0 * std::f64::consts::LN_10 / 20.0 {
                                    continue;
                                }
                                rep.cmp(2);
                                e2 = e2.max((logmag(&fr[2], *w) - wnt).abs()).max((logmag(&fr[3], *w) - wnt).abs());
                            }
                            if !(e2 <= 0.001) {
                                rep.violation("spectrum-after-change", format!("frames 3/4 after a frame with {}: |H| deviates {:.5} Np from K/|A|^s of the (stationary) parameters (order {}, stage {}, alpha {}, log_gain {}, K {})", if variant == 0 { "another gain and the same frequencies" } else { "other frequencies" }, e2, order, stage, alpha, lg, k), rp.clone());
                                return;
                            }
                        }
                    }
                }
            }
        }
    });
    // with the LSP postfilter on (beta > 0; it moves the frequencies, so only the last clause applies): increasing,
    // well-separated frequencies still give a finite, decaying response - for every LSP set of the orders below incl. the ones
    // with the closest legal pairs, and betas from 1e-200 to 1; one pulse followed through 32000 samples
    {
        let betas = [1e-200, 1e-9, 0.05, 0.2, 0.3, 0.45, 0.8, 1.0];
        let mut jobs: Vec<(usize, usize, f64, Vec<f64>)> = Vec::new();
        for &order in &[3usize, 4, 10, 24] {
            for (si, set) in lsp_sets(order, tier.pick(3, 4)).into_iter().enumerate() {
                for (bi, &beta) in betas.iter().enumerate() {
                    if order > 4 && (si + bi) % 3 != 0 {
                        continue;
                    }
                    jobs.push((order, 1 + (si + bi) % 3, beta, set.clone()));
                }
            }
        }
        // a close pair (the smallest legal spacing class: one gap of 1 unit) between wide gaps (4 units), at every interior
        // position; and two such pairs at once
        for &order in &[4usize, 6, 10, 24] {
            for k in 1..order {
                let mut gaps = vec![4.0; order + 1];
                gaps[k] = 1.0;
                if order >= 10 && k + 3 < order {
                    gaps[k + 3] = 1.0;
                }
                let total: f64 = gaps.iter().sum();
                let mut acc = 0.0;
                let set: Vec<f64> = (0..order).map(|i| { acc += gaps[i]; PI * acc / total }).collect();
                for (bi, &beta) in betas.iter().enumerate() {
                    if order > 6 && (k + bi) % 2 != 0 {
                        continue;
                    }
                    jobs.push((order, 1 + (k + bi) % 2, beta, set.clone()));
                }
            }
        }
        // two formants (pairs 0.08 apart) between gaps of 0.3..0.47, order 10
        for &beta in &betas {
            jobs.push((10, 2, beta, vec![0.20, 0.62, 0.70, 1.15, 1.45, 1.53, 2.00, 2.30, 2.60, 2.90]));
        }
        let n_beta = AtomicU64::new(0);
        let pf_worst = Mutex::new((0.0f64, String::new()));
        rep.par_for(jobs.len(), 4, "C13 postfilter", |i| {
            let (order, stage, beta, set) = &jobs[i];
            let mut params = vec![1.0];
            params.extend(set.iter());
            rep.eval(1);
            rep.cmp(1);
            n_beta.fetch_add(1, Ordering::Relaxed);
            let alpha = if i % 2 == 0 { 0.0 } else { 0.42 };
            let rp = json!({"order": order, "stage": stage, "alpha": alpha, "log_gain": false, "beta": format!("{:e}", beta), "params_gain_then_lsp": params, "f0_hz": 20});
            match long_response(*order, *stage, alpha, *beta, &params, 32_000) {
                Err(p) => rep.violation(format!("panic@{}", site_of(&p)), p, rp),
                Ok((peak, last, finite)) => {
                    let tail = if finite { last / peak.max(1e-300) } else { f64::NAN };
                    {
                        let mut w = pf_worst.lock().unwrap();
                        if tail > w.0 || tail.is_nan() {
                            *w = (tail, format!("order {} stage {} beta {:e}", order, stage, beta));
                        }
                    }
                    if tail.is_nan() || !peak.is_finite() || tail > 1e-2 {
                        rep.violation("diverges-with-postfilter", format!("LSP postfilter beta {:e} (order {}, stage {}): the response to increasing, well-separated frequencies is not finite or does not decay (peak {:e}, tail {:e})", beta, order, stage, peak, tail), rp);
                    }
                }
            }
        });
        rep.note("postfilter_cases", json!({"cases": n_beta.load(Ordering::Relaxed), "worst_tail_to_peak": pf_worst.lock().unwrap().0, "at": pf_worst.lock().unwrap().1}));
    }
    // stages beyond the enumerated 1..4 (the statement covers every s >= 1): each stage 5..128 once, low orders, mildly
    // uneven LSP sets
    {
        let sweep: Vec<usize> = (5..=128).collect();
        let n_sweep = AtomicU64::new(0);
        rep.par_for(sweep.len(), 1, "C13 stage sweep", |i| {
            let stage = sweep[i];
            let order = [2usize, 3, 4][i % 3];
            // uniform spacing with every other frequency moved by 0.4 gap / sqrt(stage): the spectrum is far from flat, yet its
            // range after the power s stays measurable
            let gap = PI / (order as f64 + 1.0);
            let set: Vec<f64> = (1..=order).map(|j| gap * j as f64 + if j % 2 == 1 { 0.4 * gap / (stage as f64).sqrt() } else { 0.0 }).collect();
            let set = &set;
            let (alpha, lg, k) = [(0.0f64, false, 2.0f64), (0.42, true, 0.5), (0.3, false, 1.0)][(i / 3) % 3];
            let mut params = vec![if lg { k.ln() } else { k }];
            params.extend(set.iter());
            rep.eval(1);
            n_sweep.fetch_add(1, Ordering::Relaxed);
            // the vocoder's own output volume (a plain factor) cycles through 1, 2 and 1/4
            let volume = [1.0, 2.0, 0.25][(i / 9) % 3];
            let rp = json!({"order": order, "stage": stage, "alpha": alpha, "log_gain": lg, "params_gain_then_lsp": params, "f0_hz": 20, "vocoder_volume": volume});
            match response_vol(order, stage, lg, alpha, 0.0, &params, 8_000_000, volume) {
                Err(p) => rep.violation(format!("panic@{}", site_of(&p)), p, rp),
                Ok((h, _rate, tail, h2)) => {
                    if tail.is_nan() || tail > 1e-6 {
                        rep.violation("diverges", format!("stage {} (order {}): response not finite or not decaying", stage, order), rp);
                        return;
                    }
                    let a = lsp_to_a(set);
                    let want: Vec<f64> = grid.iter().map(|w| k.ln() - stage as f64 * poly_logmag(&a, warp(*w, alpha))).collect();
                    let peak = want.iter().cloned().fold(f64::NEG_INFINITY, f64::max);
                    let mut err = 0.0f64;
                    for (w, wnt) in grid.iter().zip(&want) {
                        if *wnt < peak - 100.0 * std::f64::consts::LN_10 / 20.0 {
                            continue;
                        }
                        rep.cmp(2);
                        err = err.max((logmag(&h, *w) - wnt).abs()).max((logmag(&h2, *w) - wnt).abs());
                    }
                    if !(err <= 0.001) {
                        rep.violation("spectrum-high-stage", format!("stage {} (order {}, alpha {}, log_gain {}, K {}): |H| deviates {:.5} Np from K/|A(e^jw~)|^s", stage, order, alpha, lg, k, err), rp);
                    }
                }
            }
        });
        rep.note("stage_sweep_cases", json!(n_sweep.load(Ordering::Relaxed)));
    }
    // one thread, orders visited in a zig-zag from large to small: whatever a larger order left behind on this thread (scratch
    // tables that only grow) must not leak into a smaller one
    {
        let zig: Vec<usize> = vec![24, 3, 23, 2, 16, 5, 10, 4, 8, 6, 12, 7];
        let mut n = 0u64;
        for (zi, &order) in zig.iter().enumerate() {
            let sets = lsp_sets(order, 0);
            let set = &sets[(zi * 3) % sets.len()];
            for (stage, alpha, lg, k) in [(1usize, 0.0f64, false, 2.0f64), (3, 0.42, true, 0.5)] {
                let mut params = vec![if lg { k.ln() } else { k }];
                params.extend(set.iter());
                rep.eval(1);
                n += 1;
                let rp = json!({"order": order, "stage": stage, "alpha": alpha, "log_gain": lg, "params_gain_then_lsp": params, "after_orders": zig[..zi].to_vec()});
                match response(order, stage, lg, alpha, 0.0, &params, 8_000_000) {
                    Err(p) => rep.violation(format!("panic@{}", site_of(&p)), p, rp),
                    Ok((h, _rate, tail, h2)) => {
                        if tail.is_nan() || tail > 1e-6 {
                            rep.violation("diverges", format!("order {} after larger orders on the same thread: response not finite or not decaying", order), rp);
                            continue;
                        }
                        let a = lsp_to_a(set);
                        let want: Vec<f64> = grid.iter().map(|w| k.ln() - stage as f64 * poly_logmag(&a, warp(*w, alpha))).collect();
                        let peak = want.iter().cloned().fold(f64::NEG_INFINITY, f64::max);
                        let mut err = 0.0f64;
                        for (w, wnt) in grid.iter().zip(&want) {
                            if *wnt < peak - 100.0 * std::f64::consts::LN_10 / 20.0 {
                                continue;
                            }
                            rep.cmp(2);
                            err = err.max((logmag(&h, *w) - wnt).abs()).max((logmag(&h2, *w) - wnt).abs());
                        }
                        if !(err <= 0.001) {
                            rep.violation("spectrum-after-larger-order", format!("order {} (stage {}, alpha {}) measured on a thread that ran orders {:?} before: |H| deviates {:.5} Np", order, stage, alpha, &zig[..zi], err), rp);
                        }
                    }
                }
            }
        }
        rep.note("zigzag_order_cases", json!(n));
    }
    {
        let mut cfgs = Vec::new();
        for (order, stage, lg, alpha) in [(2usize, 1usize, false, 0.0f64), (5, 2, true, 0.42), (24, 4, false, 0.3), (9, 3, true, 0.6)] {
            let gap = PI / (order as f64 + 1.0);
            let mut pa = vec![if lg { 0.2 } else { 1.2 }];
            pa.extend((1..=order).map(|j| gap * j as f64 + if j % 2 == 1 { 0.3 * gap } else { 0.0 }));
            let mut pb = vec![if lg { -0.1 } else { 0.9 }];
            pb.extend((1..=order).map(|j| gap * j as f64 - if j % 2 == 1 { 0.25 * gap } else { 0.0 }));
            cfgs.push((order + 1, stage, lg, alpha, 0.0, pa, pb));
        }
        let n = crate::props::c06::clone_midstream(&rep, &cfgs);
        rep.note("vocoder_clone_cases", json!(n));
    }
    let w = worst.lock().unwrap().clone();
    rep.note("bounds", json!({"orders": orders, "full_composition_up_to_order": full_upto, "stages": stages, "alphas": alphas, "K": [0.5,1.0,2.0], "frequencies": nfreq, "cases": cases.len(), "worst_error_np": w.0, "worst_case": w.1}));
    rep.sample(json!({"order": 2, "stage": 1, "alpha": 0.0, "log_gain": false, "params": [0.5, PI / 3.0, 2.0 * PI / 3.0]}));
    rep.sample_last(json!({"order": cases.last().unwrap().0, "stage": cases.last().unwrap().1, "lsp": cases.last().unwrap().5}));
    rep.guard(cases.iter().any(|c| c.0 % 2 == 1) && cases.iter().any(|c| c.0 % 2 == 0), "need even and odd orders");
    rep.finish()
}
