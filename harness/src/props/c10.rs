//! C10 – Voice interpolation is the weighted average.
use crate::common::*;
use crate::gen::cond::*;
use crate::gen::labels;
use crate::gen::voice::GenCfg;
use jbonsai::model::{Models, Voice};
use jbonsai::Engine;
use serde_json::json;
use std::sync::atomic::{AtomicU64, Ordering};
use std::sync::{Arc, Mutex};

/// simplex lattice with step 1/4 (components in [-1/4, 3/2]) for n voices, vertices first
pub fn weight_lattice(n: usize) -> Vec<Vec<f64>> {
    fn rec(n: usize, left: i32, cur: &mut Vec<f64>, out: &mut Vec<Vec<f64>>) {
        if cur.len() == n - 1 {
            let mut c = cur.clone();
            c.push(left as f64 / 4.0);
            out.push(c);
            return;
        }
        for i in -1..=6 {
            cur.push(i as f64 / 4.0);
            rec(n, left - i, cur, out);
            cur.pop();
        }
    }
    let mut ws = Vec::new();
    if n == 1 {
        return vec![vec![1.0]];
    }
    rec(n, 4, &mut vec![], &mut ws);
    ws.retain(|w| w.iter().all(|x| *x >= -0.25 && *x <= 1.5));
    ws.sort_by_key(|w| (w.iter().filter(|x| **x != 0.0 && **x != 1.0).count(), w.iter().filter(|x| **x < 0.0).count()));
    // far extrapolations (a component, or a running sum in voice order, below -1), and vectors with an exact 1.0 or an
    // exact 0.0 in the middle next to components that cancel
    let mut far: Vec<Vec<f64>> = vec![vec![2.5, -1.5], vec![-1.5, 2.5]];
    if n >= 3 {
        far = vec![vec![1.25, 1.25, -1.5], vec![-0.75, -0.75, 2.5], vec![1.0, 0.5, -0.5], vec![0.5, 0.0, 0.5], vec![-2.0, 3.0, 0.0]];
    }
    for mut f in far {
        f.resize(n, 0.0);
        if !ws.contains(&f) {
            ws.push(f);
        }
    }
    ws
}

/// weight vectors for sets of more than four voices (the lattice would explode): vertices, equal weights, a ramp, weight on
/// the last voices only, one on every ninth/fifth voice, and extrapolations with negative components in the tail
pub fn many_weights(n: usize) -> Vec<Vec<f64>> {
    let mut ws: Vec<Vec<f64>> = Vec::new();
    for k in [0, n - 1, n / 2] {
        let mut v = vec![0.0; n];
        v[k] = 1.0;
        ws.push(v);
    }
    ws.push(vec![1.0 / n as f64; n]);
    let tri = (n * (n + 1) / 2) as f64;
    ws.push((0..n).map(|i| (i + 1) as f64 / tri).collect());
    ws.push((0..n).map(|i| (n - i) as f64 / tri).collect());
    let mut tail = vec![0.0; n];
    tail[n - 1] = 0.75;
    tail[n - 2] = 0.25;
    ws.push(tail);
    let mut alt = vec![0.0; n];
    alt[0] = 1.5;
    alt[n - 1] = -0.75;
    alt[n - 2] = 0.5;
    alt[n / 2] = -0.25;
    ws.push(alt);
    // dyadic weights, all different: 1/2, 1/4, …, the last one repeated so that they sum to 1 exactly
    let mut dy: Vec<f64> = (0..n).map(|i| 0.5f64.powi(i as i32 + 1)).collect();
    dy[n - 1] = dy[n - 2];
    ws.push(dy.clone());
    dy.reverse();
    ws.push(dy);
    // only vectors whose doubles add up to exactly 1 in either direction: whether a sum that is off by an ulp or two (1/n
    // repeated n times, a ramp) is accepted is not specified
    ws.retain(|w| w.iter().sum::<f64>() == 1.0 && w.iter().rev().sum::<f64>() == 1.0);
    ws
}

fn set_all(e: &mut Engine, nstream: usize, q: &[Option<&Vec<f64>>], _eq: &[f64]) -> Result<(), String> {
    // quantities that do not deviate keep the equal weights the engine starts with (they are not passed through the
    // setters again: for some voice counts the doubles 1/n do not add up to exactly 1, and whether a sum that is off by a
    // few ulp is accepted is not specified)
    let iw = e.condition.get_interporation_weight_mut();
    if let Some(v) = q[0] {
        iw.set_duration(&v[..]).map_err(|e| e.to_string())?;
    }
    for i in 0..nstream {
        if let Some(v) = q[1 + i] {
            iw.set_parameter(i, &v[..]).map_err(|e| e.to_string())?;
        }
        if let Some(v) = q[1 + nstream + i] {
            iw.set_gv(i, &v[..]).map_err(|e| e.to_string())?;
        }
    }
    Ok(())
}

struct SetCase {
    name: String,
    voices: Vec<Arc<Voice>>,
    nstream: usize,
    nstate: usize,
    identical: bool,
}

pub fn run(tier: Tier) -> i32 {
    let rep = Report::new("C10", tier, "model_checking");
    rep.set_rule("SCOPE: voice sets {V0; V0+P1; V0+P1+P2; V0+P1+P2+P3; V0+V0; a generated voice with a copy that differs in the voicing weights only; generated pairs/triples with different trees incl. coarse-then-fine and fine-then-coarse orders; sets of 5..10 generated voices (thorough: up to 33) with ten weight vectors each (vertices, equal, ramps, tail-only, extrapolating, dyadic)} x weight vectors on the quarter-step simplex lattice incl. vertices and components in [-1/4,3/2], plus far extrapolations such as (2.5,-1.5), (1.25,1.25,-1.5), (1,.5,-.5), (.5,0,.5) x which of the 1+2*streams quantities (duration, parameter[i], gv[i]) deviate from equal weights (<= 2 at a time, the second with the reversed vector; plus whole groups moved together: duration+parameters, all GV, all parameters, all but duration, all) x labels (cover set Lambda + corpus windows); oracle: Models::duration / model_stream(i).stream / .gv equal sum_v w_v x that voice's own Model::get_parameter (rel 1e-12 incl. voicing weight); weights (1,0,..) reproduce the single-voice parameters and waveform bit-exactly; identical voices reproduce the single voice (parameters 1e-12, waveform 1e-6 of peak); distinct = (voice set, weight vector, deviating quantities); non-trivial = more than one voice");
    rep.assume("weights on the quarter-step lattice; each voice's own tree selection is taken from Model::get_parameter (validated against the independent reader by C04)");
    let corpus = labels::corpus();
    let lam = labels::lambda(&corpus);
    let mut label_sets: Vec<Vec<String>> = lam.iter().take(tier.pick(12, 33)).map(|l| vec![l.clone()]).collect();
    // longer utterances: several labels that share a leaf in one voice's tree but not in another's
    label_sets.push(corpus[100..108].to_vec());
    label_sets.push(lam.iter().take(10).cloned().collect());
    label_sets.push(corpus[40..43].to_vec());
    label_sets.push(corpus[700..703].to_vec());
    let mut sets: Vec<SetCase> = Vec::new();
    for n in 1..=4usize {
        sets.push(SetCase { name: format!("V0+P1..P{}", n - 1), voices: (0..n).map(pk).collect(), nstream: 3, nstate: 5, identical: false });
    }
    sets.push(SetCase { name: "V0+V0".into(), voices: vec![pk(0), pk(0)], nstream: 3, nstate: 5, identical: true });
    sets.push(SetCase { name: "V0+V0+V0".into(), voices: vec![pk(0), pk(0), pk(0)], nstream: 3, nstate: 5, identical: true });
    for (cfg, nv) in [(GenCfg { gv: true, nstate: 3, ..GenCfg::default() }, 2usize), (GenCfg { gv: true, ns: 2, stage: 2, order: 5, nstate: 2, ..GenCfg::default() }, 3)] {
        let voices: Vec<Arc<Voice>> = (0..nv).map(|v| Arc::new(load_voice_bytes(&GenCfg { variant: v as u32, ..cfg.clone() }.bytes()).expect("generated voice"))).collect();
        sets.push(SetCase { name: format!("{} x{} variants", cfg.describe(), nv), voices, nstream: cfg.ns, nstate: cfg.nstate, identical: false });
    }
    // coarse (single-leaf trees) voice first, finer voices after it, and the reverse order
    {
        let base = GenCfg { gv: true, nstate: 2, ..GenCfg::default() };
        let coarse = Arc::new(load_voice_bytes(&GenCfg { tree: 0, ..base.clone() }.bytes()).expect("generated voice"));
        let fine0 = Arc::new(load_voice_bytes(&GenCfg { tree: 1, variant: 0, ..base.clone() }.bytes()).expect("generated voice"));
        let fine1 = Arc::new(load_voice_bytes(&GenCfg { tree: 1, variant: 1, ..base.clone() }.bytes()).expect("generated voice"));
        sets.push(SetCase { name: "G coarse + fine".into(), voices: vec![coarse.clone(), fine0.clone()], nstream: 3, nstate: 2, identical: false });
        sets.push(SetCase { name: "G fine + coarse".into(), voices: vec![fine0.clone(), coarse.clone()], nstream: 3, nstate: 2, identical: false });
        sets.push(SetCase { name: "G coarse + fine(other questions) + fine".into(), voices: vec![coarse, fine1, fine0], nstream: 3, nstate: 2, identical: false });
    }
    // voices that agree in every mean and variance and differ in the voicing weights only (and the reverse order)
    {
        let cfg = GenCfg { gv: true, nstate: 2, ..GenCfg::default() };
        let a = Arc::new(load_voice_bytes(&cfg.bytes()).expect("generated voice"));
        let mut spec = cfg.spec();
        for (_, _, pdfs) in spec.streams[1].model.trees.iter_mut() {
            for p in pdfs.iter_mut() {
                let w = p.last_mut().unwrap();
                *w = 0.5 * *w + 0.01;
            }
        }
        let b = Arc::new(load_voice_bytes(&crate::gen::voice::write(&spec)).expect("generated voice with other voicing weights"));
        sets.push(SetCase { name: "G + copy with other voicing weights only".into(), voices: vec![a.clone(), b.clone()], nstream: cfg.ns, nstate: cfg.nstate, identical: false });
        sets.push(SetCase { name: "G copy with other voicing weights + G + copy".into(), voices: vec![b.clone(), a, b], nstream: cfg.ns, nstate: cfg.nstate, identical: false });
    }
    // beyond the stated sets: 5..10 (thorough: 17, 33) generated voices at once
    for nv in tier.pick(vec![5usize, 6, 7, 8, 9, 10], vec![5, 6, 7, 8, 9, 10, 12, 13, 16, 17, 33]) {
        let cfg = GenCfg { gv: true, nstate: 2, ..GenCfg::default() };
        let voices: Vec<Arc<Voice>> = (0..nv).map(|v| Arc::new(load_voice_bytes(&GenCfg { variant: v as u32, ..cfg.clone() }.bytes()).expect("generated voice"))).collect();
        sets.push(SetCase { name: format!("{} x{} variants", cfg.describe(), nv), voices, nstream: cfg.ns, nstate: cfg.nstate, identical: false });
    }
    let worst = Mutex::new(0.0f64);
    let nontriv = AtomicU64::new(0);
    let maxdev = tier.pick(2usize, 2usize);
    for sc in &sets {
        let nv = sc.voices.len();
        let ns = sc.nstream;
        let nq = 1 + 2 * ns;
        let base = match engine_from_voices(sc.voices.clone()) {
            Ok(e) => e,
            Err(er) => {
                rep.violation("voiceset", format!("compatible voices rejected: {}", er), json!({"set": sc.name}));
                continue;
            }
        };
        let mut ws = if nv <= 4 { weight_lattice(nv) } else { many_weights(nv) };
        if tier == Tier::Quick && ws.len() > 40 {
            // all vertices + edges + outside points + a stride through the interior
            let keep: Vec<Vec<f64>> = ws.iter().enumerate().filter(|(i, w)| w.iter().filter(|x| **x != 0.0).count() <= 2 && i % 2 == 0 || i % 9 == 0).map(|(_, w)| w.clone()).collect();
            ws = keep;
        }
        let eq = vec![1.0 / nv as f64; nv];
        // which quantities deviate: none, each single, each pair (second gets the reversed vector)
        // (quantities, all of them get the same vector?)
        let mut devsets: Vec<(Vec<usize>, bool)> = vec![(vec![], false)];
        for a in 0..nq {
            devsets.push((vec![a], false));
        }
        if maxdev >= 2 {
            for a in 0..nq {
                for b in a + 1..nq {
                    devsets.push((vec![a, b], false));
                }
            }
        }
        // whole groups moved together, the rest left at equal weights: duration + every parameter vector (GV untouched),
        // every GV vector, every parameter vector, everything but the duration, everything
        let params: Vec<usize> = (1..=ns).collect();
        let gvs: Vec<usize> = (ns + 1..nq).collect();
        devsets.push(([vec![0], params.clone()].concat(), true));
        devsets.push((gvs.clone(), true));
        devsets.push((params.clone(), true));
        devsets.push(([params.clone(), gvs.clone()].concat(), true));
        devsets.push(((0..nq).collect(), true));
        let jobs: Vec<(usize, usize)> = (0..ws.len()).flat_map(|w| (0..devsets.len()).map(move |d| (w, d))).collect();
        rep.par_for(jobs.len(), 4, "C10 part 1", |j| {
            let (wi, di) = jobs[j];
            let w = &ws[wi];
            let wrev: Vec<f64> = w.iter().rev().cloned().collect();
            let (dev, same) = &devsets[di];
            if dev.is_empty() && wi > 0 {
                return;
            }
            let mut q: Vec<Option<&Vec<f64>>> = vec![None; nq];
            for (k, qi) in dev.iter().enumerate() {
                q[*qi] = Some(if k == 0 || *same { w } else { &wrev });
            }
            let mut e = base.clone();
            rep.eval(1);
            rep.distinct(fnv(format!("{}|{}|{}", sc.name, wi, di).as_bytes()));
            if nv > 1 {
                nontriv.fetch_add(1, Ordering::Relaxed);
            }
            let rp = json!({"voice_set": sc.name, "weights": w, "deviating_quantities(0=duration,1..=parameter,then gv)": dev});
            if let Err(er) = set_all(&mut e, ns, &q, &eq) {
                rep.violation("valid-weights-rejected", format!("weights summing to 1 rejected: {}", er), rp);
                return;
            }
            let wq = |qi: usize| -> &Vec<f64> { q[qi].unwrap_or(&eq) };
            {
                let labs0: Vec<jlabel::Label> = label_sets[0].iter().map(|l| labels::parse(l)).collect();
                let m0 = Models::new(&labs0, &e.voices, e.condition.get_interporation_weight());
                rep.outcome(fnv(format!("{:?}{:?}", m0.duration(), m0.model_stream(1).stream.first()).as_bytes()));
            }
            let mut wr = 0.0f64;
            let mut fail: Option<String> = None;
            'outer: for ls in &label_sets {
                let labs: Vec<jlabel::Label> = ls.iter().map(|l| labels::parse(l)).collect();
                let models = Models::new(&labs, &e.voices, e.condition.get_interporation_weight());
                let dur = models.duration();
                for (li, l) in labs.iter().enumerate() {
                    let ps: Vec<_> = sc.voices.iter().map(|v| v.duration_model.get_parameter(2, l)).collect();
                    for s in 0..sc.nstate {
                        let m: f64 = ps.iter().zip(wq(0)).map(|(p, w)| w * p.parameters[s].0).sum();
                        let v: f64 = ps.iter().zip(wq(0)).map(|(p, w)| w * p.parameters[s].1).sum();
                        let g = dur[li * sc.nstate + s];
                        rep.cmp(2);
                        let er = ((g.0 - m).abs() / (1.0 + m.abs())).max((g.1 - v).abs() / (1.0 + v.abs()));
                        wr = wr.max(er);
                        if !(er <= 1e-12) {
                            fail = Some(format!("duration of label {} state {}: got ({}, {}), weighted average ({}, {})", li, s, g.0, g.1, m, v));
                            break 'outer;
                        }
                    }
                }
                for i in 0..ns {
                    let ms = models.model_stream(i);
                    let wp = wq(1 + i);
                    for (li, l) in labs.iter().enumerate() {
                        for s in 0..sc.nstate {
                            let ps: Vec<_> = sc.voices.iter().map(|v| v.stream_models[i].stream_model.get_parameter(s + 2, l)).collect();
                            let (got, gmsd) = &ms.stream[li * sc.nstate + s];
                            for k in 0..got.len() {
                                let m: f64 = ps.iter().zip(wp).map(|(p, w)| w * p.parameters[k].0).sum();
                                let v: f64 = ps.iter().zip(wp).map(|(p, w)| w * p.parameters[k].1).sum();
                                rep.cmp(2);
                                let er = ((got[k].0 - m).abs() / (1.0 + m.abs())).max((got[k].1 - v).abs() / (1.0 + v.abs()));
                                wr = wr.max(er);
                                if !(er <= 1e-12) {
                                    fail = Some(format!("stream {} label {} state {} component {}: got ({}, {}), weighted average ({}, {})", i, li, s, k, got[k].0, got[k].1, m, v));
                                    break 'outer;
                                }
                            }
                            if ps[0].msd.opt().is_some() {
                                let m: f64 = ps.iter().zip(wp).map(|(p, w)| w * p.msd.opt().unwrap()).sum();
                                rep.cmp(1);
                                if !((gmsd - m).abs() <= 1e-12) {
                                    fail = Some(format!("stream {} label {} state {}: voicing weight {} vs weighted average {}", i, li, s, gmsd, m));
                                    break 'outer;
                                }
                            } else {
                                // a stream without multi-space distribution is voiced in every frame, whatever the weights: the
                                // value compared with the threshold must exceed every legal threshold
                                rep.cmp(1);
                                if !(*gmsd > 1.0) {
                                    fail = Some(format!("stream {} label {} state {}: a stream without voicing weights gets voicing value {} under weights {:?} (would be masked at a threshold of 1)", i, li, s, gmsd, wp));
                                    break 'outer;
                                }
                            }
                        }
                    }
                    if let Some((gvp, _)) = &ms.gv {
                        let wg = wq(1 + ns + i);
                        let ps: Vec<_> = sc.voices.iter().map(|v| v.stream_models[i].gv_model.as_ref().unwrap().get_parameter(2, &labs[0])).collect();
                        for k in 0..gvp.len() {
                            let m: f64 = ps.iter().zip(wg).map(|(p, w)| w * p.parameters[k].0).sum();
                            let v: f64 = ps.iter().zip(wg).map(|(p, w)| w * p.parameters[k].1).sum();
                            rep.cmp(2);
                            let er = ((gvp[k].0 - m).abs() / (1.0 + m.abs())).max((gvp[k].1 - v).abs() / (1.0 + v.abs()));
                            wr = wr.max(er);
                            if !(er <= 1e-12) {
                                fail = Some(format!("GV of stream {} component {}: got ({}, {}), weighted average ({}, {})", i, k, gvp[k].0, gvp[k].1, m, v));
                                break 'outer;
                            }
                        }
                    }
                }
            }
            {
                let mut wo = worst.lock().unwrap();
                *wo = wo.max(wr);
            }
            if let Some(f) = fail {
                rep.violation("weighted-average", f, rp);
            }
        });
        // consequence 1: weights (1,0,...) on every quantity reproduce the first voice alone exactly
        if nv > 1 {
            let mut vertex = vec![0.0; nv];
            vertex[0] = 1.0;
            let single = engine_from_voices(vec![sc.voices[0].clone()]).expect("single voice engine");
            let q: Vec<Option<&Vec<f64>>> = vec![Some(&vertex); nq];
            let mut e = base.clone();
            let utt = &label_sets[label_sets.len() - 2];
            if set_all(&mut e, ns, &q, &eq).is_ok() {
                rep.eval(1);
                let (a, b) = (synth(&e, utt), synth(&single, utt));
                let (ta, tb) = (trajectories(&e, utt), trajectories(&single, utt));
                rep.cmp(2);
                match (a, b, ta, tb) {
                    (Ok(a), Ok(b), Ok(ta), Ok(tb)) => {
                        if !bits_eq(&a, &b) || !bits_eq2(&ta.0, &tb.0) || !bits_eq2(&ta.1, &tb.1) || !bits_eq2(&ta.2, &tb.2) {
                            rep.violation("vertex", "weights (1,0,...) do not reproduce the first voice alone bit-exactly", json!({"voice_set": sc.name, "labels": utt}));
                        }
                    }
                    _ => rep.violation("vertex", "synthesis failed for vertex weights", json!({"voice_set": sc.name, "labels": utt})),
                }
            }
            // consequence 2: identical voices with any valid weights reproduce the single voice up to rounding
            if sc.identical {
                for w in ws.iter().take(tier.pick(12, 60)) {
                    let q: Vec<Option<&Vec<f64>>> = vec![Some(w); nq];
                    let mut e = base.clone();
                    if set_all(&mut e, ns, &q, &eq).is_err() {
                        continue;
                    }
                    rep.eval(1);
                    let (Ok(a), Ok(b)) = (synth(&e, utt), synth(&single, utt)) else {
                        rep.violation("identical-voices", "synthesis failed", json!({"voice_set": sc.name, "weights": w}));
                        continue;
                    };
                    let peak = b.iter().fold(0.0f64, |x, y| x.max(y.abs()));
                    rep.cmp(1);
                    if a.len() != b.len() || a.iter().zip(&b).any(|(x, y)| !((x - y).abs() <= 1e-6 * peak)) {
                        let worst_d = a.iter().zip(&b).fold(0.0f64, |m, (x, y)| m.max((x - y).abs()));
                        rep.violation("identical-voices", format!("blending identical voices with weights {:?} changes the waveform by {:e} (peak {:e}, lengths {} vs {})", w, worst_d, peak, a.len(), b.len()), json!({"voice_set": sc.name, "weights": w, "labels": utt}));
                    }
                }
            }
        }
    }
    rep.nontrivial.store(nontriv.load(Ordering::Relaxed), Ordering::Relaxed);
    rep.note("bounds", json!({"voice_sets": sets.iter().map(|s| s.name.clone()).collect::<Vec<_>>(), "label_sets": label_sets.len(), "max_deviating_quantities": maxdev, "lattice_sizes": (1..=4).map(|n| weight_lattice(n).len()).collect::<Vec<_>>(), "worst_relative_error": *worst.lock().unwrap()}));
    rep.sample(json!({"voice_set": "V0+P1", "weights": [1.0, 0.0], "deviating": [0]}));
    rep.sample(json!({"voice_set": "V0+P1..P3", "weights": [1.5, -0.25, -0.25, 0.0], "deviating": [2, 5]}));
    rep.sample_last(json!({"voice_set": sets.last().unwrap().name, "weights": weight_lattice(3).last()}));
    rep.guard(nontriv.load(Ordering::Relaxed) > 500, "too few multi-voice cases");
    rep.finish()
}
