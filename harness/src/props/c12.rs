//! C12 – Global variance restores the model's variance.
use crate::common::*;
use crate::gen::cond::*;
use crate::gen::labels;
use crate::oracle::dense::mlpg_reference;
use crate::oracle::reader::any_glob;
use jbonsai::duration::DurationEstimator;
use jbonsai::model::Models;
use serde_json::json;
use std::sync::atomic::{AtomicU64, Ordering};
use std::sync::Mutex;

const NODATA: f64 = -1e10;
pub const WEIGHTS: [f64; 5] = [0.25, 0.5, 1.0, 1.5, 2.0];
/// (weight of stream 0, weight of stream 1): the lattice with both streams alike, then two pairs that differ
const WPAIRS: [(f64, f64); 7] = [(0.25, 0.25), (0.5, 0.5), (1.0, 1.0), (1.5, 1.5), (2.0, 2.0), (0.5, 2.0), (2.0, 0.5)];

pub fn run(tier: Tier) -> i32 {
    let rep = Report::new("C12", tier, "model_checking");
    rep.set_rule("SCOPE: all corpus windows of 10/20/40/60 consecutive labels at the tier's stride (plus a fixed shuffle of each; plus the whole corpus twice as one utterance of 2912 labels at weights (1,1) and (.5,2)) x GV weights {0.25,.5,1,1.5,2} on both GV streams alike plus the unequal pairs (.5,2) and (2,.5) x voices V0 (+P1..P3 thorough) and V0 with two other legal GV-off contexts (previous phoneme; relative accent position) and V0 with other window sets on both GV streams (static + delta; static + five-tap delta + delta-delta); trajectories via hook 1; oracle: for every coefficient of each GV stream with >= 100 eligible frames (voiced, label outside the voice's GV-off contexts by the independent glob matcher) |var/(w*gv_mean)-1| <= 0.2 and variance non-decreasing in w; silence-only utterances equal the dense ML solution; low-pass (non-GV) trajectory bit-identical for every weight; one MlpgAdjust asked twice (durations of speeds 1 and 0.6) equals fresh objects; distinct = (voice, window, weight); non-trivial = >= 100 eligible frames");
    rep.assume("corpus windows at the stated stride; weights on the 5-point lattice");
    let corpus = labels::corpus();
    // GV-off context variants: the bundled header's own patterns, and two legal variants that look at
    // something other than the centre phoneme (previous phoneme; relative accent position)
    let gv_off_variants: Vec<Vec<String>> = vec![
        vec!["*-sil+*".into(), "*-pau+*".into()],
        vec!["*-sil+*".into(), "*-pau+*".into(), "*^a-*".into(), "*^i-*".into()],
        vec!["*-sil+*".into(), "*-pau+*".into(), "*/A:-1+*".into(), "*/A:1+*".into(), "*/A:2+*".into()],
    ];
    let variant_engines: Vec<jbonsai::Engine> = gv_off_variants
        .iter()
        .map(|pats| {
            let bytes = crate::gen::cond::v0_bytes();
            let text = String::from_utf8_lossy(&bytes[..4096]).to_string();
            let line_start = text.find("GV_OFF_CONTEXT:").expect("GV_OFF_CONTEXT line");
            let line_end = line_start + text[line_start..].find('\n').unwrap();
            let mut out = bytes[..line_start].to_vec();
            out.extend(format!("GV_OFF_CONTEXT:{}", pats.iter().map(|p| format!("\"{}\"", p)).collect::<Vec<_>>().join(",")).as_bytes());
            out.extend(&bytes[line_end..]);
            engine_from_bytes(&out).expect("bundled voice with another GV-off context loads")
        })
        .collect();
    // the bundled voice with other window sets on both GV streams (set through the public fields; the PDFs keep their three
    // blocks, of which the first ones are used): static + delta only, and a five-tap delta window - fewer windows than the
    // band of the normal equations is wide
    let mut gv_off_variants = gv_off_variants;
    let mut variant_engines = variant_engines;
    for wins in [vec![vec![1.0], vec![-0.5, 0.0, 0.5]], vec![vec![1.0], vec![-0.2, -0.1, 0.0, 0.1, 0.2], vec![1.0, -2.0, 1.0]]] {
        use jbonsai::model::voice::window::{Window, Windows};
        let mut v = (*pk(0)).clone();
        for si in 0..2 {
            v.stream_models[si].windows = Windows::new(wins.iter().map(|w| Window::new(w.clone())).collect());
            v.stream_models[si].metadata.num_windows = wins.len();
        }
        gv_off_variants.push(gv_off_variants[0].clone());
        variant_engines.push(engine_from_voices(vec![std::sync::Arc::new(v)]).expect("bundled voice with other windows"));
    }
    let gv_off: Vec<String> = gv_off_variants[0].clone();
    let stride = tier.pick(23usize, 2usize);
    let widths = [10usize, 20, 40, 60];
    let mut wins: Vec<Vec<String>> = Vec::new();
    for (wi, &wd) in widths.iter().enumerate() {
        let st = stride * (wi + 1);
        for s in ((seed() as usize % st)..corpus.len() - wd).step_by(st) {
            let w = corpus[s..s + wd].to_vec();
            // fixed shuffle: reverse blocks of 3
            if (s / st) % 4 == 0 {
                let mut sh = w.clone();
                for ch in sh.chunks_mut(3) {
                    ch.reverse();
                }
                wins.push(sh);
            }
            wins.push(w);
        }
    }
    // beyond the stated widths: the whole corpus twice as one utterance (2912 labels, 14560 states), V0, two weight pairs
    let n_wins = wins.len();
    wins.push(corpus.iter().chain(corpus.iter()).cloned().collect());
    let nvoice = tier.pick(1usize, 4usize);
    let worst = Mutex::new(0.0f64);
    let coef_checks = AtomicU64::new(0);
    let nontriv = AtomicU64::new(0);
    let mut jobs: Vec<(usize, usize)> = (0..nvoice).flat_map(|k| (0..n_wins).filter(move |wi| k == 0 || wi % 5 == k).map(move |wi| (k, wi))).collect();
    jobs.insert(0, (0, n_wins));
    for v in 1..gv_off_variants.len() {
        for wi in (0..n_wins).filter(|wi| tier == Tier::Thorough && wi % 3 == v || wi % 7 == v) {
            jobs.push((100 + v, wi));
        }
    }
    rep.par_for(jobs.len(), 1, "C12 part 1", |j| {
        let (k, wi) = jobs[j];
        let base = if k >= 100 { variant_engines[k - 100].clone() } else { engine_pk(&[k]) };
        let gv_off: &Vec<String> = if k >= 100 { &gv_off_variants[k - 100] } else { &gv_off_variants[0] };
        let u = &wins[wi];
        let labs: Vec<jlabel::Label> = u.iter().map(|l| labels::parse(l)).collect();
        let models = Models::new(&labs, &base.voices, base.condition.get_interporation_weight());
        let d = DurationEstimator::new(models.duration(), 5).create(1.0);
        // label eligibility by the independent glob matcher
        let lab_ok: Vec<bool> = u.iter().map(|l| !any_glob(gv_off, l)).collect();
        let mut frame_ok = Vec::new();
        for (s, n) in d.iter().enumerate() {
            for _ in 0..*n {
                frame_ok.push(lab_ok[s / 5]);
            }
        }
        let gv_means: Vec<Vec<f64>> = (0..2).map(|i| models.model_stream(i).gv.map(|g| g.0.iter().map(|m| m.0).collect()).unwrap_or_default()).collect();
        let mut prev_var: Vec<Vec<f64>> = vec![vec![], vec![]];
        let mut lpf0: Option<Vec<Vec<f64>>> = None;
        for (pi, &(w0, w1)) in WPAIRS.iter().enumerate() {
            if wi >= n_wins && pi != 2 && pi != 5 {
                continue;
            }
            let mut e = base.clone();
            e.condition.set_gv_weight(0, w0);
            e.condition.set_gv_weight(1, w1);
            let _ = w0;
            rep.eval(1);
            rep.distinct(fnv(format!("{}|{}|{}|{}", k, wi, w0, w1).as_bytes()));
            let rp = json!({"voice": if k == 0 { "V0".to_string() } else if k >= 103 { format!("V0 with the windows of both GV streams replaced by {}", if k == 103 { "static + delta" } else { "static + five-tap delta + delta-delta" }) } else if k >= 100 { format!("V0 with GV_OFF_CONTEXT {:?}", gv_off) } else { format!("P{}(V0)", k) }, "labels": u, "gv_weight": [w0, w1]});
            let t = match trajectories(&e, u) {
                Ok(t) => t,
                Err(er) => {
                    rep.violation("synthesis", er, rp);
                    return;
                }
            };
            rep.outcome(hash_f64s(&t.1.iter().flatten().cloned().collect::<Vec<f64>>()));
            match &lpf0 {
                None => lpf0 = Some(t.2.clone()),
                Some(l) => {
                    rep.cmp(1);
                    if !bits_eq2(l, &t.2) {
                        rep.violation("non-gv-stream", format!("the low-pass stream (no GV) changes with GV weights {:?}", (w0, w1)), rp.clone());
                    }
                }
            }
            for stream in 0..2usize {
                let w = if stream == 0 { w0 } else { w1 };
                let tr = if stream == 0 { &t.0 } else { &t.1 };
                let elig: Vec<usize> = (0..tr.len()).filter(|f| frame_ok[*f] && (stream == 0 || tr[*f][0] != NODATA)).collect();
                if elig.len() < 100 {
                    continue;
                }
                if stream == 0 {
                    nontriv.fetch_add(1, Ordering::Relaxed);
                }
                let nco = tr[0].len();
                let mut vars = Vec::with_capacity(nco);
                for c in 0..nco {
                    let mean = elig.iter().map(|f| tr[*f][c]).sum::<f64>() / elig.len() as f64;
                    let var = elig.iter().map(|f| (tr[*f][c] - mean).powi(2)).sum::<f64>() / elig.len() as f64;
                    vars.push(var);
                    let target = w * gv_means[stream][c];
                    let r = (var / target - 1.0).abs();
                    rep.cmp(1);
                    coef_checks.fetch_add(1, Ordering::Relaxed);
                    {
                        let mut wo = worst.lock().unwrap();
                        *wo = wo.max(r);
                    }
                    if !(r <= 0.2) {
                        rep.violation("variance-law", format!("stream {} coefficient {}: variance {} over {} eligible frames, want gv_weight {} x GV mean {} = {} (off by {:.1}%)", stream, c, var, elig.len(), w, gv_means[stream][c], target, r * 100.0), rp.clone());
                        break;
                    }
                    if let Some(pv) = prev_var[stream].get(c).filter(|_| pi < WEIGHTS.len()) {
                        if var < *pv * (1.0 - 1e-9) {
                            rep.violation("monotone", format!("stream {} coefficient {}: variance {} at weight {} is below {} at the smaller weight", stream, c, var, w, pv), rp.clone());
                            break;
                        }
                    }
                }
                prev_var[stream] = vars;
            }
        }
    });
    // a stream whose header says USE_GV = 0 is unaffected by the GV weight even when the file still carries GV data
    // for it: bundled voice with only the USE_GV flag of one stream cleared (positions left in place)
    let mut nogv_cases = 0u64;
    for sname in ["MCP", "LF0"] {
        let bytes = crate::gen::cond::v0_bytes();
        let text = String::from_utf8_lossy(&bytes[..4096]).to_string();
        let key = format!("USE_GV[{}]:1", sname);
        let Some(pos) = text.find(&key) else { continue };
        let mut out = bytes.clone();
        out[pos + key.len() - 1] = b'0';
        let e0 = match catch(|| engine_from_bytes(&out)) {
            Ok(Ok(e)) => e,
            other => {
                rep.violation("nogv-load", format!("bundled voice with USE_GV[{}] cleared does not load: {:?}", sname, other.err()), json!({"voice": format!("V0 with USE_GV[{}]:0", sname)}));
                continue;
            }
        };
        let si = if sname == "MCP" { 0 } else { 1 };
        for u in wins.iter().step_by((wins.len() / tier.pick(3, 10)).max(1)) {
            let mut first: Option<Vec<Vec<f64>>> = None;
            for &w in &[0.25, 1.0, 2.0] {
                let mut e = e0.clone();
                e.condition.set_gv_weight(0, w);
                e.condition.set_gv_weight(1, w);
                let Ok(t) = trajectories(&e, u) else { continue };
                rep.eval(1);
                nogv_cases += 1;
                let tr = if si == 0 { t.0 } else { t.1 };
                match &first {
                    None => first = Some(tr),
                    Some(f) => {
                        rep.cmp(1);
                        if !bits_eq2(f, &tr) {
                            rep.violation("nogv-stream-affected", format!("stream {} has USE_GV = 0 in the header, yet its trajectory changes with the GV weight ({} vs 0.25)", sname, w), json!({"voice": format!("V0 with USE_GV[{}]:0 (GV positions still listed)", sname), "labels": u, "gv_weight": w}));
                            break;
                        }
                    }
                }
            }
        }
    }
    rep.note("use_gv_cleared_cases", json!(nogv_cases));
    // no eligible frame: silence-only utterances equal the plain ML solution (dense reference)
    let sil: Vec<String> = corpus.iter().filter(|l| any_glob(&gv_off, l)).cloned().collect();
    let mut sil_cases = 0u64;
    for n in [1usize, 2, 3] {
        for start in 0..tier.pick(4usize, 12usize).min(sil.len().saturating_sub(n)) {
            let u: Vec<String> = sil[start..start + n].to_vec();
            let base = engine_pk(&[0]);
            let labs: Vec<jlabel::Label> = u.iter().map(|l| labels::parse(l)).collect();
            let models = Models::new(&labs, &base.voices, base.condition.get_interporation_weight());
            let d = DurationEstimator::new(models.duration(), 5).create(1.0);
            for &w in &[0.5, 1.0, 2.0] {
                let mut e = base.clone();
                e.condition.set_gv_weight(0, w);
                e.condition.set_gv_weight(1, w);
                let Ok(t) = trajectories(&e, &u) else { continue };
                rep.eval(1);
                sil_cases += 1;
                for stream in 0..2usize {
                    let ms = models.model_stream(stream);
                    let wins_c: Vec<Vec<f64>> = crate::gen::voice::window_set(2);
                    let states: Vec<(Vec<(f64, f64)>, bool)> = ms.stream.iter().map(|(p, msd)| (p.iter().map(|m| (m.0, m.1)).collect(), *msd > 0.5)).collect();
                    let want = mlpg_reference(&states, &d, &wins_c, ms.vector_length);
                    let got = if stream == 0 { &t.0 } else { &t.1 };
                    let scale = want.iter().flatten().filter(|x| **x != NODATA).fold(1.0f64, |a, b| a.max(b.abs()));
                    let ok = got.len() == want.len()
                        && got.iter().zip(&want).all(|(g, wv)| g.iter().zip(wv).all(|(a, b)| if *b == NODATA { *a == NODATA } else { (a - b).abs() <= 1e-9 * scale }));
                    rep.cmp(1);
                    if !ok {
                        rep.violation("no-eligible-frame", format!("silence-only utterance: stream {} trajectory differs from the plain ML solution at GV weight {}", stream, w), json!({"voice": "V0", "labels": u, "gv_weight": w}));
                    }
                }
            }
        }
    }
    // the lower-level entry point: one MlpgAdjust (with GV) asked for trajectories twice, with the durations of two
    // speaking rates - the second answer must be what a fresh MlpgAdjust gives for those durations
    let mut reuse_cases = 0u64;
    {
        let base = engine_pk(&[0]);
        for wi in (0..wins.len()).step_by((wins.len() / 4).max(1)).take(4) {
            let u = &wins[wi];
            let labs: Vec<jlabel::Label> = u.iter().map(|l| labels::parse(l)).collect();
            let models = Models::new(&labs, &base.voices, base.condition.get_interporation_weight());
            let est = DurationEstimator::new(models.duration(), 5);
            let (d1, d2) = (est.create(1.0), est.create(0.6));
            for stream in 0..2usize {
                for &w in &[0.5, 1.0] {
                    rep.eval(1);
                    reuse_cases += 1;
                    let r = catch(|| {
                        let reused = jbonsai::mlpg_adjust::MlpgAdjust::new(w, 0.5, models.model_stream(stream));
                        let a1 = reused.create(&d1);
                        let a2 = reused.create(&d2);
                        let a1_again = reused.create(&d1);
                        let f2 = jbonsai::mlpg_adjust::MlpgAdjust::new(w, 0.5, models.model_stream(stream)).create(&d2);
                        (bits_eq2(&a2, &f2), bits_eq2(&a1, &a1_again))
                    });
                    rep.cmp(2);
                    match r {
                        Err(p) => rep.violation("reuse-panic", format!("MlpgAdjust asked twice panics: {}", p), json!({"voice": "V0", "labels": u, "stream": stream, "gv_weight": w})),
                        Ok((same2, same1)) => {
                            if !same2 || !same1 {
                                rep.violation("reuse", format!("stream {}: an MlpgAdjust asked a second time (other durations{}) does not give what a fresh one gives: GV state left over from the first call", stream, if same2 { ", then the first again" } else { "" }), json!({"voice": "V0", "labels": u, "stream": stream, "gv_weight": w, "speeds": [1.0, 0.6]}));
                            }
                        }
                    }
                }
            }
        }
    }
    rep.note("mlpg_adjust_reuse_cases", json!(reuse_cases));
    rep.nontrivial.store(nontriv.load(Ordering::Relaxed), Ordering::Relaxed);
    rep.note("bounds", json!({"weights": WEIGHTS, "window_widths": widths, "stride": stride, "windows": wins.len(), "voices": nvoice, "jobs": jobs.len(), "coefficient_variance_checks": coef_checks.load(Ordering::Relaxed), "worst_relative_deviation": *worst.lock().unwrap(), "silence_only_cases": sil_cases}));
    rep.sample(json!({"voice": "V0", "window": {"first_label": wins[0][0], "labels": wins[0].len()}, "gv_weights": WEIGHTS}));
    rep.sample_last(json!({"voice": "V0", "window": {"first_label": wins.last().unwrap()[0], "labels": wins.last().unwrap().len()}}));
    rep.guard(coef_checks.load(Ordering::Relaxed) > 1000, "variance law hardly exercised");
    rep.guard(sil_cases > 0, "no silence-only case");
    rep.finish()
}
