//! C11 – Voicing follows each stream's MSD threshold.
use crate::common::*;
use crate::gen::cond::*;
use crate::gen::labels;
use crate::gen::voice::GenCfg;
use crate::props::c20::Act;
use jbonsai::duration::DurationEstimator;
use jbonsai::model::Models;
use jbonsai::vocoder::Vocoder;
use serde_json::json;
use std::sync::atomic::{AtomicU64, Ordering};

const NODATA: f64 = -1e10;
pub const THR: [f64; 7] = [0.0, 0.05, 0.3, 0.5, 0.7, 0.95, 1.0];

pub fn run(tier: Tier) -> i32 {
    let rep = Report::new("C11", tier, "model_checking");
    rep.set_rule("SCOPE: F0-stream thresholds {-0,0,.05,.3,.5,.7,.95,1} and up to three thresholds exactly equal to voicing weights of the utterance x (default + every single deviation of the other streams' thresholds {0,1} and of every stream's GV weight {0,2}, and a pitch shift alone or with another stream's threshold) x voices (V0, P1..P3, generated (the first of them also on the whole corpus read twice as one utterance of 2912 labels) with voicing weights straddling the lattice, one with weights exactly 0 or 1) x utterances; trajectories via hook 1; oracle: frame voiced iff msd(state(frame)) > threshold[1] with msd from Models::model_stream(1), voiced sets nested along the thresholds, spectrum/low-pass trajectories bit-identical across F0-threshold and F0-GV-weight values, F0 trajectory bit-identical across other streams' settings, unvoiced frames rendered as the reference noise and voiced frames as pulse trains on zero-spectrum voices (one of them with log-F0 leaves at 15 Hz); distinct = (voice, utterance, other deviation, threshold); non-trivial = utterance has both voiced and unvoiced states at some threshold");
    rep.assume("threshold lattice only; state(frame) derived from DurationEstimator::create through the public API");
    let corpus = labels::corpus();
    let mut utts: Vec<Vec<String>> = vec![vec![corpus[41].clone()], corpus[40..43].to_vec(), corpus[0..3].to_vec()];
    let stride = tier.pick(61usize, 7usize);
    for s in ((seed() as usize % stride)..corpus.len() - 8).step_by(stride) {
        utts.push(corpus[s..s + 8].to_vec());
    }
    let mut voices: Vec<(String, jbonsai::Engine, usize, usize)> = Vec::new();
    for k in 0..tier.pick(2, 4) {
        voices.push((if k == 0 { "V0".into() } else { format!("P{}(V0)", k) }, engine_pk(&[k]), 3, 5));
    }
    for cfg in [
        GenCfg { nstate: 5, ..GenCfg::default() },
        GenCfg { nstate: 3, ns: 2, variant: 1, ..GenCfg::default() },
        GenCfg { nstate: 7, gv: true, stage: 2, order: 5, ..GenCfg::default() },
    ] {
        voices.push((cfg.describe(), engine_from_bytes(&cfg.bytes()).expect("generated voice"), cfg.ns, cfg.nstate));
    }
    // a voice whose voicing weights are exactly 0 (where the generated weight is below one half) or exactly 1
    {
        let cfg = GenCfg { nstate: 3, ..GenCfg::default() };
        let mut spec = cfg.spec();
        for (_, _, pdfs) in spec.streams[1].model.trees.iter_mut() {
            for p in pdfs.iter_mut() {
                let w = p.last_mut().unwrap();
                *w = if *w < 0.5 { 0.0 } else { 1.0 };
            }
        }
        voices.push((format!("{} with voicing weights exactly 0 or 1", cfg.describe()), engine_from_bytes(&crate::gen::voice::write(&spec)).expect("generated voice"), cfg.ns, cfg.nstate));
    }
    let nontriv = AtomicU64::new(0);
    let flips = AtomicU64::new(0);
    // beyond the small scope: the whole corpus twice as one utterance (2912 labels), on the first generated voice only
    let n_utts = utts.len();
    utts.push(corpus.iter().chain(corpus.iter()).cloned().collect());
    let first_gen = voices.iter().position(|v| v.3 != 5 || !v.0.starts_with(['V', 'P'])).unwrap_or(0);
    let mut jobs: Vec<(usize, usize, Vec<Act>)> = Vec::new();
    for (vi, v) in voices.iter().enumerate() {
        let mut others: Vec<Vec<Act>> = vec![vec![]];
        for i in 0..v.2 {
            if i != 1 {
                others.push(vec![Act::Msd(i, 0.0)]);
                others.push(vec![Act::Msd(i, 1.0)]);
            }
            others.push(vec![Act::Gv(i, 0.0)]);
            others.push(vec![Act::Gv(i, 2.0)]);
        }
        // a pitch shift moves the F0 values, not the voicing decision: the threshold law must hold under it as well
        others.push(vec![Act::HalfTone(3.0)]);
        others.push(vec![Act::HalfTone(-5.0), Act::Msd(0, 1.0)]);
        if tier == Tier::Thorough {
            others.push(vec![Act::Msd(0, 1.0), Act::Gv(1, 2.0)]);
            others.push(vec![Act::Gv(0, 2.0), Act::Gv(1, 0.0)]);
            if v.2 > 2 {
                others.push(vec![Act::Msd(2, 0.0), Act::Gv(1, 0.0)]);
            }
        }
        for ui in 0..utts.len() {
            if ui >= n_utts {
                if vi == first_gen {
                    jobs.push((vi, ui, vec![]));
                }
                continue;
            }
            for o in &others {
                if vi < 4 && v.3 == 5 && ui >= 3 && !o.is_empty() && tier == Tier::Quick {
                    continue;
                }
                jobs.push((vi, ui, o.clone()));
            }
        }
    }
    // base trajectories per (voice, utterance) at the default condition, for the isolation clauses
    rep.par_for(jobs.len(), 1, "C11 part 1", |j| {
        let (vi, ui, other) = &jobs[j];
        let v = &voices[*vi];
        let u = &utts[*ui];
        let labs: Vec<jlabel::Label> = u.iter().map(|l| labels::parse(l)).collect();
        let eb = with_cond(&v.1, other);
        let models = Models::new(&labs, &eb.voices, eb.condition.get_interporation_weight());
        let msd: Vec<f64> = models.model_stream(1).stream.iter().map(|x| x.1).collect();
        let d = DurationEstimator::new(models.duration(), models.nstate()).create(1.0);
        let mut frame_state = Vec::new();
        for (s, n) in d.iter().enumerate() {
            for _ in 0..*n {
                frame_state.push(s);
            }
        }
        let base_default = trajectories(&v.1, u);
        let mut prev: Option<Vec<bool>> = None;
        let mut first: Option<Traj> = None;
        let mut any_v = false;
        let mut any_u = false;
        // the lattice plus thresholds exactly equal to voicing weights that occur in this utterance ("exceeds" is strict:
        // at equality the frame is unvoiced)
        let mut ths: Vec<f64> = THR.to_vec();
        {
            let mut m: Vec<f64> = msd.iter().cloned().filter(|x| *x > 0.0 && *x < 1.0).collect();
            m.sort_by(|a, b| a.partial_cmp(b).unwrap());
            m.dedup();
            for k in [0, m.len() / 2, m.len().saturating_sub(1)] {
                if let Some(x) = m.get(k) {
                    ths.push(*x);
                }
            }
            ths.sort_by(|a, b| a.partial_cmp(b).unwrap());
            ths.dedup();
            // negative zero is a legal threshold (numerically 0): a weight of +0 does not exceed it
            ths.insert(0, -0.0);
        }
        for &th in &ths {
            let mut e = eb.clone();
            e.condition.set_msd_threshold(1, th);
            rep.eval(1);
            rep.distinct(fnv(format!("{}|{}|{:?}|{}", vi, ui, other, th).as_bytes()));
            let rp = json!({"voice": v.0, "labels": u, "other_condition": acts_json(other), "f0_threshold": th});
            let t = match trajectories(&e, u) {
                Ok(t) => t,
                Err(er) => {
                    rep.violation("synthesis", format!("generator fails at threshold {}: {}", th, er), rp);
                    return;
                }
            };
            if t.1.len() != frame_state.len() {
                rep.violation("frames", format!("{} frames, duration model says {}", t.1.len(), frame_state.len()), rp);
                return;
            }
            let voiced: Vec<bool> = t.1.iter().map(|f| f[0] != NODATA).collect();
            rep.outcome(fnv(format!("{:?}", voiced).as_bytes()));
            // streams that are not multi-space have no voicing weight: whatever their own threshold is set to,
            // every frame carries data
            rep.cmp(1);
            if t.0.iter().flatten().any(|x| *x == NODATA) || t.2.iter().flatten().any(|x| *x == NODATA) {
                rep.violation("non-msd-masked", format!("a frame of a stream without multi-space distribution (spectrum or low-pass) carries the no-data marker under {:?}", other), rp.clone());
                return;
            }
            for (fi, vflag) in voiced.iter().enumerate() {
                rep.cmp(1);
                let want = msd[frame_state[fi]] > th;
                if *vflag != want {
                    rep.violation("mask", format!("frame {} (state {}, voicing weight {}) is {} at threshold {}", fi, frame_state[fi], msd[frame_state[fi]], if *vflag { "voiced" } else { "unvoiced" }, th), rp.clone());
                    return;
                }
                any_v |= *vflag;
                any_u |= !*vflag;
            }
            if let Some(p) = &prev {
                for (a, b) in p.iter().zip(&voiced) {
                    if !*a && *b {
                        rep.violation("nesting", format!("raising the threshold to {} turned an unvoiced frame voiced", th), rp.clone());
                        return;
                    }
                    if *a && !*b {
                        flips.fetch_add(1, Ordering::Relaxed);
                    }
                }
            }
            prev = Some(voiced);
            // other streams unchanged across the F0 threshold
            match &first {
                None => first = Some(t.clone()),
                Some(f) => {
                    rep.cmp(2);
                    if !bits_eq2(&f.0, &t.0) || !bits_eq2(&f.2, &t.2) {
                        rep.violation("isolation-f0-threshold", format!("spectrum or low-pass trajectory changes with the F0 threshold ({})", th), rp.clone());
                        return;
                    }
                }
            }
            // F0 trajectory unchanged by other streams' settings; other streams unchanged by F0 GV weight
            if th == 0.5 {
                if let Ok(b) = &base_default {
                    let touches_f0 = other.iter().any(|a| matches!(a, Act::Gv(1, _) | Act::Msd(1, _) | Act::HalfTone(_)));
                    let touches_0 = other.iter().any(|a| matches!(a, Act::Gv(0, _) | Act::Msd(0, _)));
                    let touches_2 = other.iter().any(|a| matches!(a, Act::Gv(2, _) | Act::Msd(2, _)));
                    rep.cmp(3);
                    if !touches_f0 && !bits_eq2(&b.1, &t.1) {
                        rep.violation("isolation-f0", format!("log-F0 trajectory changes under {:?}", other), rp.clone());
                    }
                    if !touches_0 && !bits_eq2(&b.0, &t.0) {
                        rep.violation("isolation-spectrum", format!("spectrum trajectory changes under {:?}", other), rp.clone());
                    }
                    if !touches_2 && !bits_eq2(&b.2, &t.2) {
                        rep.violation("isolation-lpf", format!("low-pass trajectory changes under {:?}", other), rp.clone());
                    }
                }
            }
        }
        if any_v && any_u {
            nontriv.fetch_add(THR.len() as u64, Ordering::Relaxed);
        }
    });
    // end-to-end: unvoiced frames are rendered as noise (zero-spectrum 2-stream voice: identity filter, no mixed excitation)
    let zcfg = GenCfg { ns: 2, nstate: 5, zero_spectrum: true, wset: 0, ..GenCfg::default() };
    let ze = engine_from_bytes(&zcfg.bytes()).expect("zero-spectrum voice");
    // the same voice with half of its log-F0 leaves far below the audible range (15 Hz): such frames are still
    // voiced - how the vocoder limits their pitch is C07's business, but they must not be rendered as noise
    let ze_low = {
        let mut spec = zcfg.spec();
        for (_, _, pdfs) in spec.streams[1].model.trees.iter_mut() {
            for (li, pdf) in pdfs.iter_mut().enumerate() {
                if li % 2 == 0 {
                    pdf[0] = (15.0f32).ln();
                }
            }
        }
        engine_from_bytes(&crate::gen::voice::write(&spec)).expect("zero-spectrum voice with very low F0")
    };
    let mut e2e = 0u64;
    let mut voiced_frames_rendered = 0u64;
    for (zi, ze) in [&ze, &ze_low].into_iter().enumerate() {
    for u in utts.iter().take(3) {
        for &th in &THR {
            let mut e = ze.clone();
            e.condition.set_msd_threshold(1, th);
            let (Ok(t), Ok(w)) = (trajectories(&e, u), synth(&e, u)) else { continue };
            let fp = e.condition.get_fperiod();
            let nfr = t.1.len();
            let noise = catch(|| {
                let mut v = Vocoder::new(zcfg.order, 0, 0, false, zcfg.rate, zcfg.alpha, 0.0, 1.0, fp);
                let mut all = Vec::new();
                for _ in 0..nfr {
                    let mut b = vec![0.0; fp];
                    v.synthesize(NODATA, &vec![0.0; zcfg.order], &[], &mut b);
                    all.extend(b);
                }
                all
            })
            .unwrap_or_default();
            rep.eval(1);
            e2e += 1;
            let rp = json!({"voice": zcfg.describe(), "very_low_f0_leaves": zi == 1, "labels": u, "f0_threshold": th});
            let mut k = 0;
            for (fi, f) in t.1.iter().enumerate() {
                if f[0] == NODATA {
                    for i in 0..fp {
                        rep.cmp(1);
                        if w[fi * fp + i].to_bits() != noise[k].to_bits() {
                            rep.violation("unvoiced-not-noise", format!("unvoiced frame {} sample {} is {} but the noise excitation is {}", fi, i, w[fi * fp + i], noise[k]), rp.clone());
                            break;
                        }
                        k += 1;
                    }
                } else {
                    // a voiced frame is a pulse train through the identity filter: almost all samples are exactly 0
                    rep.cmp(1);
                    voiced_frames_rendered += 1;
                    let nonzero = w[fi * fp..(fi + 1) * fp].iter().filter(|x| **x != 0.0).count();
                    if nonzero > fp / 4 {
                        rep.violation("voiced-rendered-as-noise", format!("frame {} is voiced (log-F0 {}) but {} of its {} samples are non-zero: it was not rendered as a pulse train", fi, f[0], nonzero, fp), rp.clone());
                        break;
                    }
                }
            }
        }
    }
    }
    rep.guard(voiced_frames_rendered > 50, "hardly any voiced frame rendered end to end");
    rep.nontrivial.store(nontriv.load(Ordering::Relaxed), Ordering::Relaxed);
    rep.note("bounds", json!({"thresholds": THR, "voices": voices.iter().map(|v| v.0.clone()).collect::<Vec<_>>(), "utterances": utts.len(), "jobs": jobs.len(), "frames_turning_unvoiced_along_thresholds": flips.load(Ordering::Relaxed), "end_to_end_noise_runs": e2e, "voiced_frames_rendered": voiced_frames_rendered}));
    rep.sample(json!({"voice": "V0", "labels": utts[0], "other_condition": [], "f0_thresholds": THR}));
    rep.sample_last(json!({"voice": voices.last().unwrap().0, "labels": utts.last().unwrap(), "other_condition": "Gv(2, 2.0)"}));
    rep.guard(flips.load(Ordering::Relaxed) > 10, "thresholds never flipped a frame");
    rep.finish()
}
