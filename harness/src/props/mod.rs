use crate::common::Tier;

macro_rules! props {
    ($($id:literal => $m:ident),* $(,)?) => {
        $(pub mod $m;)*
        pub fn run(id: &str, tier: Tier) -> i32 {
            match id {
                $($id => $m::run(tier),)*
                _ => { crate::elog!("unknown property {}", id); 2 }
            }
        }
    };
}
props! {
    "C01" => c01,
    "C02" => c02,
    "C03" => c03,
    "C04" => c04,
    "C05" => c05,
    "C06" => c06,
    "C07" => c07,
    "C08" => c08,
    "C09" => c09,
    "C10" => c10,
    "C11" => c11,
    "C12" => c12,
    "C13" => c13,
    "C14" => c14,
    "C15" => c15,
    "C16" => c16,
    "C17" => c17,
    "C18" => c18,
    "C19" => c19,
    "C20" => c20,
}

pub fn replay(path: &str) -> i32 {
    let s = match std::fs::read_to_string(path) {
        Ok(s) => s,
        Err(e) => {
            crate::elog!("cannot read {}: {}", path, e);
            return 2;
        }
    };
    let v: serde_json::Value = serde_json::from_str(&s).expect("replay json");
    let id = v["property"].as_str().unwrap_or("");
    match id {
        "C20" => c20::replay(&v["replay"]),
        "C02" => c02::replay(&v["replay"]),
        "C18" => c18::replay(&v["replay"]),
        "C03" => c03::replay(&v["replay"]),
        "C01" => c01::replay(&v["replay"]),
        "C05" => c05::replay(&v["replay"]),
        "C08" => c08::replay(&v["replay"]),
        "C09" => c09::replay(&v["replay"]),
        _ => {
            println!("{}", serde_json::to_string_pretty(&v).unwrap());
            crate::elog!("no executable replay for {}; the file lists the literal inputs", id);
            0
        }
    }
}

pub fn child(args: &[String]) -> i32 {
    match args.first().map(|s| s.as_str()) {
        Some("c18") => c18::child(&args[1..]),
        Some("fullstderr") => crate::common::child_fullstderr(&args[1..]),
        Some("c03base") | Some("c03sched") | Some("c03setter") | Some("c03proc") => c03::child(args),
        _ => 2,
    }
}
