//! C20 – Condition setters clamp to their documented ranges and round-trip.
//! HIST: stateright model over the real `Condition`; every transition calls the real setter;
//! reference = plain struct with the documented clamps; invariant checked in every state.

use crate::common::*;
use crate::gen::cond::via_clone_from;
use crate::gen::voice::GenCfg;
use jbonsai::Condition;
use serde_json::{json, Value};
use stateright::{Checker, Model, Property};
use std::hash::{Hash, Hasher};
use std::sync::Mutex;

#[derive(Clone, Debug, PartialEq)]
pub enum Act {
    Rate(usize),
    Fperiod(usize),
    Volume(f64),
    Msd(usize, f64),
    Gv(usize, f64),
    Speed(f64),
    Align(bool),
    Alpha(f64),
    Beta(f64),
    HalfTone(f64),
}
impl Act {
    pub fn to_json(&self) -> Value {
        match self {
            Act::Rate(v) => json!(["set_sampling_frequency", v.to_string()]),
            Act::Fperiod(v) => json!(["set_fperiod", v.to_string()]),
            Act::Volume(v) => json!(["set_volume", format!("{:e}", v)]),
            Act::Msd(i, v) => json!(["set_msd_threshold", i, format!("{:e}", v)]),
            Act::Gv(i, v) => json!(["set_gv_weight", i, format!("{:e}", v)]),
            Act::Speed(v) => json!(["set_speed", format!("{:e}", v)]),
            Act::Align(v) => json!(["set_phoneme_alignment_flag", v]),
            Act::Alpha(v) => json!(["set_alpha", format!("{:e}", v)]),
            Act::Beta(v) => json!(["set_beta", format!("{:e}", v)]),
            Act::HalfTone(v) => json!(["set_additional_half_tone", format!("{:e}", v)]),
        }
    }
    pub fn from_json(v: &Value) -> Option<Act> {
        let name = v[0].as_str()?;
        let f = |x: &Value| x.as_str().and_then(|s| s.parse::<f64>().ok());
        Some(match name {
            "set_sampling_frequency" => Act::Rate(v[1].as_str()?.parse().ok()?),
            "set_fperiod" => Act::Fperiod(v[1].as_str()?.parse().ok()?),
            "set_volume" => Act::Volume(f(&v[1])?),
            "set_msd_threshold" => Act::Msd(v[1].as_u64()? as usize, f(&v[2])?),
            "set_gv_weight" => Act::Gv(v[1].as_u64()? as usize, f(&v[2])?),
            "set_speed" => Act::Speed(f(&v[1])?),
            "set_phoneme_alignment_flag" => Act::Align(v[1].as_bool()?),
            "set_alpha" => Act::Alpha(f(&v[1])?),
            "set_beta" => Act::Beta(f(&v[1])?),
            "set_additional_half_tone" => Act::HalfTone(f(&v[1])?),
            _ => return None,
        })
    }
    /// inverse of the Debug rendering, e.g. "Gv(1, 2.0)" (used by replay commands)
    pub fn parse_debug(s: &str) -> Option<Act> {
        let (name, rest) = s.split_once('(')?;
        let args: Vec<&str> = rest.trim_end_matches(')').split(',').map(|x| x.trim()).collect();
        Some(match name {
            "Rate" => Act::Rate(args[0].parse().ok()?),
            "Fperiod" => Act::Fperiod(args[0].parse().ok()?),
            "Volume" => Act::Volume(args[0].parse().ok()?),
            "Msd" => Act::Msd(args[0].parse().ok()?, args[1].parse().ok()?),
            "Gv" => Act::Gv(args[0].parse().ok()?, args[1].parse().ok()?),
            "Speed" => Act::Speed(args[0].parse().ok()?),
            "Align" => Act::Align(args[0] == "true"),
            "Alpha" => Act::Alpha(args[0].parse().ok()?),
            "Beta" => Act::Beta(args[0].parse().ok()?),
            "HalfTone" => Act::HalfTone(args[0].parse().ok()?),
            _ => return None,
        })
    }
    pub fn apply(&self, c: &mut Condition) {
        match *self {
            Act::Rate(v) => c.set_sampling_frequency(v),
            Act::Fperiod(v) => c.set_fperiod(v),
            Act::Volume(v) => c.set_volume(v),
            Act::Msd(i, v) => c.set_msd_threshold(i, v),
            Act::Gv(i, v) => c.set_gv_weight(i, v),
            Act::Speed(v) => c.set_speed(v),
            Act::Align(v) => c.set_phoneme_alignment_flag(v),
            Act::Alpha(v) => c.set_alpha(v),
            Act::Beta(v) => c.set_beta(v),
            Act::HalfTone(v) => c.set_additional_half_tone(v),
        }
    }
}
impl Eq for Act {}
impl Hash for Act {
    fn hash<H: Hasher>(&self, h: &mut H) {
        format!("{:?}", self).hash(h)
    }
}

/// The boring reference model: documented clamps, nothing else.
#[derive(Clone, Debug, PartialEq)]
pub struct RefCond {
    pub rate: usize,
    pub fperiod: usize,
    pub volume_db: f64,
    pub msd: Vec<f64>,
    pub gv: Vec<f64>,
    pub speed: f64,
    pub align: bool,
    pub alpha: f64,
    pub beta: f64,
    pub half_tone: f64,
}
impl RefCond {
    pub fn initial(rate: usize, fperiod: usize, alpha: f64, nstream: usize) -> Self {
        RefCond {
            rate,
            fperiod,
            volume_db: 0.0,
            msd: vec![0.5; nstream],
            gv: vec![1.0; nstream],
            speed: 1.0,
            align: false,
            alpha,
            beta: 0.0,
            half_tone: 0.0,
        }
    }
    pub fn apply(&mut self, a: &Act) {
        fn lim(v: f64, lo: f64, hi: f64) -> f64 {
            if v < lo {
                lo
            } else if v > hi {
                hi
            } else {
                v
            }
        }
        match *a {
            Act::Rate(v) => self.rate = if v < 1 { 1 } else { v },
            Act::Fperiod(v) => self.fperiod = if v < 1 { 1 } else { v },
            Act::Volume(v) => self.volume_db = v,
            Act::Msd(i, v) => self.msd[i] = lim(v, 0.0, 1.0),
            Act::Gv(i, v) => self.gv[i] = lim(v, 0.0, f64::INFINITY),
            Act::Speed(v) => self.speed = lim(v, 1.0e-6, f64::INFINITY),
            Act::Align(v) => self.align = v,
            Act::Alpha(v) => self.alpha = lim(v, 0.0, 1.0),
            Act::Beta(v) => self.beta = lim(v, 0.0, 1.0),
            Act::HalfTone(v) => self.half_tone = v,
        }
    }
    /// Compare with the real getters; returns the first mismatch.
    pub fn mismatch(&self, c: &Condition) -> Option<String> {
        if c.get_sampling_frequency() != self.rate {
            return Some(format!("get_sampling_frequency {} want {}", c.get_sampling_frequency(), self.rate));
        }
        if c.get_fperiod() != self.fperiod {
            return Some(format!("get_fperiod {} want {}", c.get_fperiod(), self.fperiod));
        }
        let v = c.get_volume();
        if !((v - self.volume_db).abs() <= 1e-9 * (1.0 + self.volume_db.abs())) {
            return Some(format!("get_volume {} want {}", v, self.volume_db));
        }
        for i in 0..self.msd.len() {
            if c.get_msd_threshold(i) != self.msd[i] {
                return Some(format!("get_msd_threshold({}) {} want {}", i, c.get_msd_threshold(i), self.msd[i]));
            }
            if c.get_gv_weight(i) != self.gv[i] {
                return Some(format!("get_gv_weight({}) {} want {}", i, c.get_gv_weight(i), self.gv[i]));
            }
        }
        if c.get_speed() != self.speed {
            return Some(format!("get_speed {} want {}", c.get_speed(), self.speed));
        }
        if c.get_phoneme_alignment_flag() != self.align {
            return Some(format!("get_phoneme_alignment_flag {} want {}", c.get_phoneme_alignment_flag(), self.align));
        }
        if c.get_alpha() != self.alpha {
            return Some(format!("get_alpha {} want {}", c.get_alpha(), self.alpha));
        }
        if c.get_beta() != self.beta {
            return Some(format!("get_beta {} want {}", c.get_beta(), self.beta));
        }
        if c.get_additional_half_tone() != self.half_tone {
            return Some(format!("get_additional_half_tone {} want {}", c.get_additional_half_tone(), self.half_tone));
        }
        None
    }
}

#[derive(Clone, Debug)]
pub struct St {
    depth: u8,
    cond: Condition,
    render: String,
    reference: RefCond,
    bad: Option<String>,
    /// the calls that led here (not part of the state's identity; used for reporting without path reconstruction)
    hist: Vec<Act>,
}
impl PartialEq for St {
    fn eq(&self, o: &Self) -> bool {
        self.depth == o.depth && self.render == o.render && self.bad == o.bad
    }
}
impl Eq for St {}
impl Hash for St {
    fn hash<H: Hasher>(&self, h: &mut H) {
        self.depth.hash(h);
        self.render.hash(h);
        self.bad.hash(h);
    }
}

pub struct CondModel {
    pub init: Condition,
    pub init_ref: RefCond,
    pub acts: Vec<Act>,
    pub depth: u8,
    pub transitions: std::sync::atomic::AtomicU64,
    /// violating histories as found by the explorer (reported from here, so that a subject whose behaviour is not
    /// reproducible cannot crash stateright's path reconstruction)
    pub bad: Mutex<Vec<(Vec<Act>, String)>>,
    /// number of states at the depth bound on which the invariant was evaluated (guards against a silently unchecked last layer)
    pub checked_last: std::sync::atomic::AtomicU64,
    pub monitor: std::sync::Arc<HangMonitor>,
}

impl Model for CondModel {
    type State = St;
    type Action = Act;
    fn init_states(&self) -> Vec<St> {
        let bad = self.init_ref.mismatch(&self.init).map(|m| format!("initial state: {}", m));
        if let Some(b) = &bad {
            self.bad.lock().unwrap().push((vec![], b.clone()));
        }
        vec![St { depth: 0, render: format!("{:?}", self.init), cond: self.init.clone(), reference: self.init_ref.clone(), bad, hist: vec![] }]
    }
    fn actions(&self, s: &St, out: &mut Vec<Act>) {
        if s.depth < self.depth && s.bad.is_none() {
            out.extend(self.acts.iter().cloned());
        }
    }
    fn next_state(&self, s: &St, a: Act) -> Option<St> {
        self.transitions.fetch_add(1, std::sync::atomic::Ordering::Relaxed);
        let _watch = self.monitor.enter(|| format!("{:?} on {}", a, s.render));
        let mut cond = s.cond.clone();
        let mut reference = s.reference.clone();
        let r = catch(|| a.apply(&mut cond));
        reference.apply(&a);
        let bad = match r {
            Err(p) => Some(format!("panic in {:?}: {}", a, p)),
            Ok(()) => reference.mismatch(&cond).map(|m| format!("after {:?}: {}", a, m)),
        };
        // interpolation weights must never be touched by a condition setter
        let bad = bad.or_else(|| {
            let a0 = format!("{:?}", s.cond.get_interporation_weight());
            let a1 = format!("{:?}", cond.get_interporation_weight());
            if a0 != a1 {
                Some(format!("after {:?}: interpolation weights changed", a))
            } else {
                None
            }
        });
        // a setter called on a copy must not reach the condition it was copied from
        let bad = bad.or_else(|| {
            if format!("{:?}", s.cond) != s.render {
                Some(format!("after {:?}: called on a clone, yet the original condition changed", a))
            } else {
                s.reference.mismatch(&s.cond).map(|m| format!("after {:?}: called on a clone, yet on the original {}", a, m))
            }
        });
        let mut hist = s.hist.clone();
        hist.push(a.clone());
        if let Some(b) = &bad {
            self.bad.lock().unwrap().push((hist.clone(), b.clone()));
        }
        Some(St { depth: s.depth + 1, render: format!("{:?}", cond), cond, reference, bad, hist })
    }
    fn properties(&self) -> Vec<Property<Self>> {
        vec![Property::always("getters equal the clamped reference", |m: &CondModel, s: &St| {
            if s.depth == m.depth {
                m.checked_last.fetch_add(1, std::sync::atomic::Ordering::Relaxed);
            }
            s.bad.is_none()
        })]
    }
}

fn canonical_all(ns: usize) -> Vec<Act> {
    let mut v = vec![Act::Rate(22050), Act::Fperiod(7), Act::Volume(-3.0), Act::Speed(1.7), Act::Align(true), Act::Alpha(0.35), Act::Beta(0.15), Act::HalfTone(2.5)];
    for i in 0..ns {
        v.push(Act::Msd(i, 0.2 + 0.1 * i as f64));
        v.push(Act::Gv(i, 0.6 + 0.2 * i as f64));
    }
    v
}

fn alphabet(nstream: usize, tier: Tier) -> Vec<Act> {
    let f_all = [0.0, -0.0, 1.0, -1.0, 0.5, 1e-7, 5e-324, 1e300, -1e300, 2.0, 24.0, -24.0];
    let f_quick = [0.0, -0.0, 1.0, -1.0, 0.5, 1e-7, 5e-324, 1e300, -1e300, 2.0, 24.0, -24.0];
    let f: &[f64] = tier.pick(&f_quick, &f_all);
    let u = [0usize, 1, 2, 48000, usize::MAX];
    let mut a = Vec::new();
    for &v in &u {
        a.push(Act::Rate(v));
        a.push(Act::Fperiod(v));
    }
    for &v in &[0.0, -20.0, 20.0, 0.5, 1.0] {
        a.push(Act::Volume(v));
    }
    for &v in f {
        for i in 0..nstream {
            a.push(Act::Msd(i, v));
            a.push(Act::Gv(i, v));
        }
        a.push(Act::Speed(v));
        a.push(Act::Alpha(v));
        a.push(Act::Beta(v));
        a.push(Act::HalfTone(v));
    }
    a.push(Act::Align(false));
    a.push(Act::Align(true));
    a
}

struct EngineCase {
    name: String,
    cond: Condition,
    reference: RefCond,
    nstream: usize,
}

fn engines() -> Vec<EngineCase> {
    let mut out = Vec::new();
    let e = jbonsai::Engine::load(&[BUNDLED]).expect("bundled voice loads");
    out.push(EngineCase { name: "V0".into(), cond: e.condition.clone(), reference: RefCond::initial(48000, 240, 0.55, 3), nstream: 3 });
    let cfg = GenCfg { ns: 2, rate: 16000, fperiod: 80, alpha: 0.42, ..GenCfg::default() };
    let e = engine_from_bytes(&cfg.bytes()).expect("generated voice loads");
    out.push(EngineCase { name: cfg.describe(), cond: e.condition.clone(), reference: RefCond::initial(16000, 80, 0.42, 2), nstream: 2 });
    // a voice with a fourth stream (legal in the container; the engine synthesizes from the first three): "every
    // stream index in range" then includes index 3
    let cfg = GenCfg { ns: 4, rate: 16000, fperiod: 80, alpha: 0.42, ..GenCfg::default() };
    let e = engine_from_bytes(&cfg.bytes()).expect("generated 4-stream voice loads");
    out.push(EngineCase { name: cfg.describe(), cond: e.condition.clone(), reference: RefCond::initial(16000, 80, 0.42, 4), nstream: 4 });
    out
}

pub fn run(tier: Tier) -> i32 {
    let rep: &'static Report = Box::leak(Box::new(Report::new("C20", tier, "model_checking")));
    let monitor = std::sync::Arc::new(HangMonitor::start(rep, "C20 setter history"));
    let depth: u8 = tier.pick(2, 3);
    rep.set_rule("HIST (stateright BFS): all histories of real Condition setter calls up to the depth bound over the listed value alphabet, on V0, a generated 2-stream voice and a generated 4-stream voice (plus the fresh state and every single call, incl. 19 further integers around 2^16, 2^31, 2^32, 2^53, 2^63 and usize::MAX, on generated voices of 5..9 streams, thorough 33), each call made on a copy of the previous state's Condition (which must stay as it was); states merged by (depth, Debug rendering of the real Condition); a state is non-trivial if it differs from the initial rendering; plus a search to closure (depth cap 7/9) over the per-stream setters alone; plus Condition::clone_from and Engine::clone_from onto a scratch object holding other values everywhere (source: fresh, after every single action, after a canonical assignment of everything): destination indistinguishable from the source; invariant: every getter equals the clamped reference after every call");
    rep.assume("f64 arguments are the 12-value alphabet {0,-0,±1,.5,1e-7,5e-324,±1e300,2,±24}; usize {0,1,2,48000,MAX}; other values are not explored");
    rep.assume("getter vs reference compared numerically (so -0.0 == 0.0), volume within 1e-9 dB");
    let mut total_states = 0u64;
    let mut total_unique = 0u64;
    for ec in engines() {
        let acts = alphabet(ec.nstream, tier);
        let mut counts = Vec::new();
        for threads in [nthreads(), 1usize.max(nthreads() / 3)] {
            let model = CondModel {
                init: ec.cond.clone(),
                init_ref: ec.reference.clone(),
                acts: acts.clone(),
                depth,
                transitions: Default::default(),
                bad: Mutex::new(vec![]),
                checked_last: Default::default(),
                monitor: monitor.clone(),
            };
            let checker = model.checker().threads(threads).target_max_depth(depth as usize + 2).spawn_bfs().join();
            let uniq = checker.unique_state_count() as u64;
            let gen = checker.state_count() as u64;
            let tr = checker.model().transitions.load(std::sync::atomic::Ordering::Relaxed);
            counts.push((uniq, checker.max_depth()));
            rep.guard(checker.model().checked_last.load(std::sync::atomic::Ordering::Relaxed) > 0, "invariant never evaluated on states at the depth bound");
            if threads == nthreads() {
                total_states += gen;
                total_unique += uniq;
                rep.states.fetch_add(uniq, std::sync::atomic::Ordering::Relaxed);
                rep.transitions.fetch_add(tr, std::sync::atomic::Ordering::Relaxed);
                rep.traces.fetch_add(tr, std::sync::atomic::Ordering::Relaxed);
                rep.eval(tr);
                rep.nontrivial.fetch_add(uniq.saturating_sub(1), std::sync::atomic::Ordering::Relaxed);
                let found = checker.model().bad.lock().unwrap().clone();
                for (actions, what) in found {
                    let name = "getters equal the clamped reference";
                    let key = format!("{}:{}", name.replace(' ', "_"), what.split(':').nth(1).unwrap_or("").split_whitespace().next().unwrap_or(""));
                    rep.violation(
                        key,
                        format!("{} on {} after history {:?}", what, ec.name, actions),
                        json!({"engine": ec.name, "history": actions.iter().map(|a| a.to_json()).collect::<Vec<_>>()}),
                    );
                }
                rep.sample(json!({"engine": ec.name, "alphabet_size": acts.len(), "depth": depth, "example_history": acts.iter().take(2).map(|a| a.to_json()).collect::<Vec<_>>()}));
                rep.sample_last(json!({"engine": ec.name, "last_action_of_alphabet": acts.last().map(|a| a.to_json())}));
            }
        }
        if rep.violation_count() == 0 && counts[0] != counts[1] {
            crate::elog!("MACHINERY: state counts differ between thread counts: {:?}", counts);
            return 2;
        }
        rep.note(&format!("bounds_{}", if ec.nstream == 3 { "V0" } else if ec.nstream == 2 { "G2" } else { "G4" }), json!({"alphabet": acts.len(), "depth": depth, "unique_states": counts[0].0, "max_depth": counts[0].1}));
    }
    // the other way to set every field at once: Clone::clone_from onto a condition (or a whole engine) that holds other
    // values everywhere and, for engines, comes from another voice. Afterwards destination and source are indistinguishable:
    // same Debug rendering (which shows the private fields too), same getters, and the source is untouched.
    {
        let mut n = 0u64;
        for ec in engines() {
            let base = if ec.nstream == 3 { jbonsai::Engine::load(&[BUNDLED]).expect("bundled voice loads") } else { engine_from_bytes(&GenCfg { ns: ec.nstream, rate: 16000, fperiod: 80, alpha: 0.42, ..GenCfg::default() }.bytes()).expect("generated voice loads") };
            let mut sources: Vec<Vec<Act>> = vec![vec![]];
            for a in alphabet(ec.nstream, tier) {
                sources.push(vec![a]);
            }
            sources.push(canonical_all(ec.nstream));
            for acts in &sources {
                let mut src = base.clone();
                let mut reference = ec.reference.clone();
                for a in acts {
                    a.apply(&mut src.condition);
                    reference.apply(a);
                }
                let before = format!("{:?}", src.condition);
                for whole in [false, true] {
                    n += 1;
                    let dst = match catch(|| via_clone_from(&src, whole)) {
                        Ok(d) => d,
                        Err(p) => {
                            rep.violation("clone-from:panic", format!("clone_from panics: {}", p), json!({"engine": ec.name, "history": acts.iter().map(|a| a.to_json()).collect::<Vec<_>>()}));
                            continue;
                        }
                    };
                    let what = if format!("{:?}", dst.condition) != before {
                        Some(format!("Debug renderings differ: destination {:?} vs source {}", dst.condition, before))
                    } else if format!("{:?}", src.condition) != before {
                        Some("the source changed".to_string())
                    } else {
                        reference.mismatch(&dst.condition)
                    };
                    if let Some(w) = what {
                        rep.violation(format!("clone-from:{}", if whole { "engine" } else { "condition" }), format!("after {}::clone_from(source) onto an object that held other values, on {} with source history {:?}: {}", if whole { "Engine" } else { "Condition" }, ec.name, acts, w.chars().take(700).collect::<String>()), json!({"engine": ec.name, "history": acts.iter().map(|a| a.to_json()).collect::<Vec<_>>(), "then": "clone_from onto a scratch object"}));
                        break;
                    }
                }
            }
        }
        rep.eval(n);
        rep.transitions.fetch_add(n, std::sync::atomic::Ordering::Relaxed);
        rep.note("clone_from_cases", json!(n));
    }
    // voices with many streams (5..9, thorough up to 33): the state of a freshly loaded engine and every single setter call
    {
        let mut n = 0u64;
        for ns in tier.pick(vec![5usize, 6, 8, 9], vec![5, 6, 7, 8, 9, 16, 17, 33]) {
            let cfg = GenCfg { ns, rate: 16000, fperiod: 80, alpha: 0.42, ..GenCfg::default() };
            let e = match engine_from_bytes(&cfg.bytes()) {
                Ok(e) => e,
                Err(er) => {
                    rep.violation("many-streams-load", format!("a generated voice with {} streams is not loaded: {}", ns, er), json!({"engine": cfg.describe(), "history": []}));
                    continue;
                }
            };
            let reference = RefCond::initial(16000, 80, 0.42, ns);
            if let Some(m) = reference.mismatch(&e.condition) {
                rep.violation(format!("many-streams-initial:{}", m.split_whitespace().next().unwrap_or("")), format!("freshly loaded {}-stream voice: {}", ns, m), json!({"engine": cfg.describe(), "history": []}));
                continue;
            }
            // besides the alphabet: integers that a detour through f64, i64 or u32 would not survive
            let wide: Vec<usize> = vec![65535, 65536, (1 << 31) - 1, 1 << 31, (1 << 32) - 1, 1 << 32, (1 << 32) + 1, (1 << 53) - 1, 1 << 53, (1 << 53) + 1, (1 << 53) + 3, (1 << 62) + 1, (1 << 63) - 1, 1 << 63, (1 << 63) + 1025, usize::MAX / 3, usize::MAX / 2, usize::MAX - 1, 10_000_000_000_000_000_000];
            let wide_acts = wide.iter().flat_map(|v| [Act::Rate(*v), Act::Fperiod(*v)]);
            for a in alphabet(ns, tier).into_iter().chain(wide_acts) {
                n += 1;
                let mut c = e.condition.clone();
                let mut r = reference.clone();
                let res = catch(|| a.apply(&mut c));
                r.apply(&a);
                let bad = match res {
                    Err(p) => Some(format!("panic in {:?}: {}", a, p)),
                    Ok(()) => r.mismatch(&c).map(|m| format!("after {:?}: {}", a, m)),
                };
                if let Some(what) = bad {
                    rep.violation(format!("many-streams:{}", what.split(':').nth(1).unwrap_or("").split_whitespace().next().unwrap_or("")), format!("{} on a {}-stream voice", what, ns), json!({"engine": cfg.describe(), "history": [a.to_json()]}));
                    break;
                }
            }
        }
        rep.eval(n);
        rep.transitions.fetch_add(n, std::sync::atomic::Ordering::Relaxed);
        rep.note("many_streams", json!({"single_setter_calls": n}));
    }
    // deeper histories on a reduced alphabet: the per-stream setters only (threshold and GV weight of every stream, each
    // set to its default, to another value, to a value that is clamped), explored until no new state appears - "all
    // setter call orders" for the setters that share a container
    {
        let e = jbonsai::Engine::load(&[BUNDLED]).expect("bundled voice loads");
        let acts: Vec<Act> = (0..3).flat_map(|i| vec![Act::Msd(i, 0.5), Act::Msd(i, 0.25), Act::Msd(i, 7.0), Act::Gv(i, 1.0), Act::Gv(i, 0.25), Act::Gv(i, -3.0)]).collect();
        let mut seen: std::collections::BTreeSet<(String, String)> = std::collections::BTreeSet::new();
        let init_ref = RefCond::initial(48000, 240, 0.55, 3);
        let mut frontier: Vec<(Condition, RefCond, Vec<Act>)> = vec![(e.condition.clone(), init_ref.clone(), vec![])];
        seen.insert((format!("{:?}", e.condition), format!("{:?}", init_ref)));
        let max_depth = tier.pick(7usize, 9usize);
        let (mut states, mut transitions, mut closed_at) = (1u64, 0u64, None);
        'bfs: for depth in 0..max_depth {
            let mut next = Vec::new();
            for (cond, reference, hist) in &frontier {
                for a in &acts {
                    transitions += 1;
                    let mut c = cond.clone();
                    let mut r = reference.clone();
                    let res = catch(|| a.apply(&mut c));
                    r.apply(a);
                    let mut h = hist.clone();
                    h.push(a.clone());
                    let bad = match res {
                        Err(p) => Some(format!("panic in {:?}: {}", a, p)),
                        Ok(()) => r.mismatch(&c).map(|m| format!("after {:?}: {}", a, m)),
                    };
                    if let Some(what) = bad {
                        rep.violation(format!("per-stream-history:{}", what.split(':').nth(1).unwrap_or("").split_whitespace().next().unwrap_or("")), format!("{} on V0 after history {:?}", what, h), json!({"engine": "V0", "history": h.iter().map(|a| a.to_json()).collect::<Vec<_>>()}));
                        break 'bfs;
                    }
                    if seen.insert((format!("{:?}", c), format!("{:?}", r))) {
                        states += 1;
                        next.push((c, r, h));
                    }
                }
            }
            if next.is_empty() {
                closed_at = Some(depth + 1);
                break;
            }
            frontier = next;
        }
        rep.eval(transitions);
        rep.states.fetch_add(states, std::sync::atomic::Ordering::Relaxed);
        rep.transitions.fetch_add(transitions, std::sync::atomic::Ordering::Relaxed);
        rep.note("per_stream_histories", json!({"actions": acts.len(), "states": states, "transitions": transitions, "closed_at_depth": closed_at, "depth_cap": max_depth}));
        rep.guard(states > 100, "per-stream history exploration found hardly any states");
    }
    rep.note("generated_states", json!(total_states));
    rep.guard(total_unique > 100, "fewer than 100 unique states");
    rep.finish_ref()
}

pub fn replay(v: &Value) -> i32 {
    let engines = engines();
    let name = v["engine"].as_str().unwrap_or("V0");
    let ec = engines.iter().find(|e| e.name == name).unwrap_or(&engines[0]);
    let mut cond = ec.cond.clone();
    let mut reference = ec.reference.clone();
    if let Some(m) = reference.mismatch(&cond) {
        println!("initial state mismatch: {}", m);
        return 1;
    }
    for a in v["history"].as_array().cloned().unwrap_or_default() {
        let act = Act::from_json(&a).expect("action");
        // as in the explorer: the call goes to a copy, and the condition it was copied from must not notice
        let before = format!("{:?}", cond);
        let mut next = cond.clone();
        act.apply(&mut next);
        if format!("{:?}", cond) != before || reference.mismatch(&cond).is_some() {
            println!("MISMATCH: {:?} was called on a clone, yet the original condition changed: {:?}", act, cond);
            return 1;
        }
        cond = next;
        reference.apply(&act);
        println!("{:?} -> {:?}", act, cond);
        if let Some(m) = reference.mismatch(&cond) {
            println!("MISMATCH: {}", m);
            return 1;
        }
    }
    println!("replay: no mismatch");
    0
}
