//! SCHED – stateless, preemption-bounded schedule exploration (CHESS style) of real code.
//! Agents are real OS threads sharing one engine; every `jbonsai::verif::point` reached by an agent is a
//! hand-off to the scheduler, which lets exactly one agent run at a time. `explore` enumerates every
//! schedule with at most B preemptions by depth-first re-execution from choice prefixes.

use std::cell::{Cell, RefCell};
use std::collections::{BTreeSet, HashMap};
use std::sync::{Arc, Condvar, Mutex};
use std::time::{Duration, Instant};

#[derive(Clone, Copy, PartialEq, Debug)]
enum St {
    Parked(&'static str),
    Running,
    Finished,
}

struct Inner {
    status: Vec<St>,
    running: BTreeSet<usize>,
    /// grants handed out by the scheduler and not yet taken up (a grant is never revoked: giving another agent the
    /// go-ahead must not cancel one that its thread has not yet woken up to)
    allowed: BTreeSet<usize>,
    /// OS thread ids of the agents (0 until known), to tell a blocked agent from a slow one
    tids: Vec<i32>,
    trace: Vec<(usize, &'static str)>,
}

pub struct Sched {
    m: Mutex<Inner>,
    cv: Condvar,
}

thread_local! {
    static AGENT: Cell<Option<usize>> = const { Cell::new(None) };
    static COUNTS: RefCell<HashMap<&'static str, u64>> = RefCell::new(HashMap::new());
}
static CURRENT: Mutex<Option<Arc<Sched>>> = Mutex::new(None);
static GRANULARITY: std::sync::atomic::AtomicU8 = std::sync::atomic::AtomicU8::new(0);

/// 0 = fine (every site; the 575-iteration impulse-response loop thinned to every 191st iteration),
/// 1 = coarse (stage boundaries only)
pub fn set_granularity(g: u8) {
    GRANULARITY.store(g, std::sync::atomic::Ordering::SeqCst);
}

fn is_point(site: &'static str) -> bool {
    let g = GRANULARITY.load(std::sync::atomic::Ordering::Relaxed);
    if g == 1 {
        return site.starts_with("engine.") || matches!(site, "mlpg.vector" | "mlpg.par" | "vocoder.frame" | "speech.step" | "cep.postfilter" | "cep.postfilter.e1" | "gv.conv" | "models.gv" | "lsp.postfilter");
    }
    if site == "cep.c2ir" {
        return COUNTS.with(|c| {
            let mut c = c.borrow_mut();
            let n = c.entry(site).or_insert(0);
            *n += 1;
            *n % 191 == 0
        });
    }
    true
}

fn hook(site: &'static str) {
    let Some(agent) = AGENT.with(|a| a.get()) else { return };
    if !is_point(site) {
        return;
    }
    let sched = CURRENT.lock().unwrap_or_else(|e| e.into_inner()).clone();
    if let Some(s) = sched {
        s.park(agent, site);
    }
}

impl Sched {
    fn park(&self, agent: usize, site: &'static str) {
        let mut g = self.m.lock().unwrap_or_else(|e| e.into_inner());
        g.status[agent] = St::Parked(site);
        g.running.remove(&agent);
        // the initial parking order of the agents is a race between OS threads, not a scheduling decision
        if site != "<start>" {
            g.trace.push((agent, site));
        }
        self.cv.notify_all();
        while !g.allowed.contains(&agent) {
            g = self.cv.wait(g).unwrap_or_else(|e| e.into_inner());
        }
        g.allowed.remove(&agent);
        g.status[agent] = St::Running;
        g.running.insert(agent);
    }
    fn finish(&self, agent: usize) {
        let mut g = self.m.lock().unwrap_or_else(|e| e.into_inner());
        g.status[agent] = St::Finished;
        g.running.remove(&agent);
        g.trace.push((agent, "<exit>"));
        self.cv.notify_all();
    }
}

#[derive(Clone, Debug)]
pub struct Point {
    pub enabled: Vec<usize>,
    pub running_enabled: bool,
}

pub struct Execution<T> {
    pub choices: Vec<usize>,
    pub points: Vec<Point>,
    pub outputs: Vec<Option<T>>,
    pub trace: Vec<(usize, &'static str)>,
    pub blocked_events: usize,
    pub hang: bool,
    pub divergence: Option<String>,
}

pub type Program<T> = Arc<dyn Fn() -> T + Send + Sync>;

/// Run one execution: replay `prefix`, then always continue the running agent (choice 0).
pub fn run_once<T: Send + 'static>(programs: &[Program<T>], prefix: &[usize]) -> Execution<T> {
    let n = programs.len();
    let sched = Arc::new(Sched {
        m: Mutex::new(Inner { status: vec![St::Running; n], running: (0..n).collect(), allowed: BTreeSet::new(), tids: vec![0; n], trace: Vec::new() }),
        cv: Condvar::new(),
    });
    *CURRENT.lock().unwrap_or_else(|e| e.into_inner()) = Some(sched.clone());
    jbonsai::verif::set_hook(Some(hook));
    let outputs: Arc<Mutex<Vec<Option<T>>>> = Arc::new(Mutex::new((0..n).map(|_| None).collect()));
    let mut handles = Vec::new();
    for (id, p) in programs.iter().enumerate() {
        let p = p.clone();
        let s = sched.clone();
        let outs = outputs.clone();
        handles.push(std::thread::spawn(move || {
            AGENT.with(|a| a.set(Some(id)));
            COUNTS.with(|c| c.borrow_mut().clear());
            s.m.lock().unwrap_or_else(|e| e.into_inner()).tids[id] = unsafe { libc::syscall(libc::SYS_gettid) } as i32;
            s.park(id, "<start>");
            let r = std::panic::catch_unwind(std::panic::AssertUnwindSafe(|| p()));
            if let Ok(v) = r {
                outs.lock().unwrap()[id] = Some(v);
            }
            s.finish(id);
        }));
    }
    let mut choices = Vec::new();
    let mut points = Vec::new();
    let mut last: Option<usize> = None;
    let mut blocked_events = 0usize;
    let mut hang = false;
    let mut divergence = None;
    // time of the last visible progress (a point reached, an agent finished, a grant handed out)
    let mut last_progress = Instant::now();
    loop {
        let mut g = sched.m.lock().unwrap_or_else(|e| e.into_inner());
        let mut timed_out = false;
        let mut asleep = 0u32;
        while !g.running.is_empty() {
            let (ng, to) = sched.cv.wait_timeout(g, Duration::from_millis(100)).unwrap_or_else(|e| e.into_inner());
            g = ng;
            if !to.timed_out() {
                last_progress = Instant::now();
                asleep = 0;
                continue;
            }
            if g.running.is_empty() {
                break;
            }
            // An agent that is between two points is either computing (its OS thread is runnable: leave it alone,
            // however long it takes on a loaded machine) or blocked on a lock held by a parked agent (its thread
            // sleeps). Ten consecutive samples asleep = blocked.
            if g.running.iter().all(|a| thread_asleep(g.tids[*a])) {
                asleep += 1;
            } else {
                asleep = 0;
            }
            if asleep >= 10 {
                timed_out = true;
                break;
            }
            if last_progress.elapsed() > hang_limit() {
                hang = true;
                break;
            }
        }
        if hang {
            break;
        }
        if g.status.iter().all(|s| *s == St::Finished) {
            break;
        }
        let parked: Vec<usize> = (0..n).filter(|i| matches!(g.status[*i], St::Parked(_))).collect();
        if timed_out {
            // every running agent sleeps between two points: a lock held by a parked agent, or a deadlock
            let candidates: Vec<usize> = parked.iter().cloned().filter(|p| !g.allowed.contains(p)).collect();
            if let Some(&b) = candidates.first() {
                blocked_events += 1;
                if blocked_events > 50 {
                    hang = true;
                    break;
                }
                g.allowed.insert(b);
                g.status[b] = St::Running;
                g.running.insert(b);
                last_progress = Instant::now();
                sched.cv.notify_all();
                continue;
            } else {
                if last_progress.elapsed() > Duration::from_secs(10) {
                    hang = true;
                    break;
                }
                continue;
            }
        }
        last_progress = Instant::now();
        if parked.is_empty() {
            continue;
        }
        // canonical order: the agent that ran last first (if still enabled), then ascending ids
        let mut enabled = Vec::new();
        let mut running_enabled = false;
        if let Some(l) = last {
            if parked.contains(&l) {
                enabled.push(l);
                running_enabled = true;
            }
        }
        for p in &parked {
            if Some(*p) != last || !running_enabled {
                if !enabled.contains(p) {
                    enabled.push(*p);
                }
            }
        }
        let idx = points.len();
        let choice = if idx < prefix.len() { prefix[idx] } else { 0 };
        if choice >= enabled.len() {
            divergence = Some(format!("replay divergence at point {}: choice {} but only {} agents enabled", idx, choice, enabled.len()));
            // fall back to 0 so that the execution can finish
            let c = 0;
            choices.push(c);
            points.push(Point { enabled: enabled.clone(), running_enabled });
            let a = enabled[c];
            last = Some(a);
            g.allowed.insert(a);
            g.status[a] = St::Running;
            g.running.insert(a);
            sched.cv.notify_all();
            continue;
        }
        choices.push(choice);
        points.push(Point { enabled: enabled.clone(), running_enabled });
        let a = enabled[choice];
        last = Some(a);
        g.allowed.insert(a);
        g.status[a] = St::Running;
        g.running.insert(a);
        sched.cv.notify_all();
    }
    if !hang {
        for h in handles {
            let _ = h.join();
        }
    }
    jbonsai::verif::set_hook(None);
    *CURRENT.lock().unwrap_or_else(|e| e.into_inner()) = None;
    let trace = sched.m.lock().unwrap_or_else(|e| e.into_inner()).trace.clone();
    let outputs = std::mem::take(&mut *outputs.lock().unwrap());
    Execution { choices, points, outputs, trace, blocked_events, hang, divergence }
}

/// Is the OS thread `tid` of this process sleeping (blocked), as opposed to running or waiting for a CPU?
fn thread_asleep(tid: i32) -> bool {
    if tid == 0 {
        return false;
    }
    match std::fs::read_to_string(format!("/proc/self/task/{}/stat", tid)) {
        // "<pid> (<comm>) <state> ..."
        Ok(s) => matches!(s.rsplit(')').next().and_then(|r| r.trim_start().chars().next()), Some('S') | Some('D')),
        Err(_) => false,
    }
}
/// an agent that computes for longer than this between two points is reported as hanging
fn hang_limit() -> Duration {
    Duration::from_secs(std::env::var("JBV_HANG_LIMIT_S").ok().and_then(|v| v.parse().ok()).unwrap_or(120))
}

pub fn preemptions(x_points: &[Point], choices: &[usize], upto: usize) -> usize {
    (0..upto).filter(|i| x_points[*i].running_enabled && choices[*i] != 0).count()
}

pub struct ExploreStats {
    pub schedules: u64,
    pub points: u64,
    pub max_points: usize,
    pub completed_bound: Option<usize>,
    pub capped: bool,
    pub blocked_events: usize,
    pub distinct_traces: BTreeSet<u64>,
}

/// Enumerate every schedule with at most `bound` preemptions. `check` inspects each complete execution and
/// returns Some(description) on violation (which stops the search).
pub fn explore<T: Send + 'static>(
    make_programs: &dyn Fn() -> Vec<Program<T>>,
    bound: usize,
    deadline: Instant,
    stats: &mut ExploreStats,
    check: &mut dyn FnMut(&Execution<T>) -> Option<String>,
) -> Option<(Vec<usize>, String, Vec<(usize, &'static str)>)> {
    let mut stack: Vec<Vec<usize>> = vec![vec![]];
    while let Some(prefix) = stack.pop() {
        if Instant::now() > deadline {
            stats.capped = true;
            return None;
        }
        let x = run_once(&make_programs(), &prefix);
        stats.schedules += 1;
        stats.points += x.points.len() as u64;
        stats.max_points = stats.max_points.max(x.points.len());
        stats.blocked_events += x.blocked_events;
        stats.distinct_traces.insert(crate::common::fnv(format!("{:?}", x.trace).as_bytes()));
        if x.hang {
            return Some((x.choices.clone(), "agents hang (deadlock, or no scheduling point reached within the hang limit)".into(), x.trace.clone()));
        }
        if let Some(d) = &x.divergence {
            return Some((x.choices.clone(), format!("MACHINERY {}", d), x.trace.clone()));
        }
        if let Some(v) = check(&x) {
            return Some((x.choices.clone(), v, x.trace.clone()));
        }
        for i in prefix.len()..x.points.len() {
            let p = &x.points[i];
            let mut cost = preemptions(&x.points, &x.choices, i);
            if p.running_enabled {
                cost += 1;
            }
            if cost > bound {
                continue;
            }
            for alt in 1..p.enabled.len() {
                let mut np = x.choices[..i].to_vec();
                np.push(alt);
                stack.push(np);
            }
        }
    }
    stats.completed_bound = Some(bound);
    None
}
