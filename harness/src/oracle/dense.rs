//! Dense reference for MLPG: builds the definition (one scalar Gaussian observation per frame and
//! window, dynamic observations dropped when their span leaves the voiced island / utterance) and
//! solves the normal equations by Gaussian elimination with partial pivoting.

pub const NODATA: f64 = -1e10;

pub fn solve_dense(a: &mut [Vec<f64>], b: &mut [f64]) -> Vec<f64> {
    let n = b.len();
    for col in 0..n {
        let mut piv = col;
        for r in col + 1..n {
            if a[r][col].abs() > a[piv][col].abs() {
                piv = r;
            }
        }
        a.swap(col, piv);
        b.swap(col, piv);
        let d = a[col][col];
        for r in col + 1..n {
            let f = a[r][col] / d;
            if f != 0.0 {
                for c in col..n {
                    a[r][c] -= f * a[col][c];
                }
                b[r] -= f * b[col];
            }
        }
    }
    let mut x = vec![0.0; n];
    for r in (0..n).rev() {
        let mut s = b[r];
        for c in r + 1..n {
            s -= a[r][c] * x[c];
        }
        x[r] = s / a[r][r];
    }
    x
}

fn precision(var: f64) -> f64 {
    if var.abs() > 1e19 {
        0.0
    } else if var.abs() < 1e-19 {
        1e38
    } else {
        1.0 / var
    }
}

/// `states[s] = (params[m] = (mean, var) with m = vlen*window + component, voiced)`;
/// returns the frames x vlen trajectory (NODATA on unvoiced frames).
pub fn mlpg_reference(
    states: &[(Vec<(f64, f64)>, bool)],
    durations: &[usize],
    windows: &[Vec<f64>],
    vlen: usize,
) -> Vec<Vec<f64>> {
    let mut frame_state = Vec::new();
    for (s, d) in durations.iter().enumerate() {
        for _ in 0..*d {
            frame_state.push(s);
        }
    }
    let t_total = frame_state.len();
    let voiced: Vec<bool> = frame_state.iter().map(|s| states[*s].1).collect();
    let mut out = vec![vec![NODATA; vlen]; t_total];
    // voiced islands
    let mut t = 0;
    while t < t_total {
        if !voiced[t] {
            t += 1;
            continue;
        }
        let a0 = t;
        while t < t_total && voiced[t] {
            t += 1;
        }
        let b0 = t; // island [a0, b0)
        let n = b0 - a0;
        for comp in 0..vlen {
            let mut a = vec![vec![0.0; n]; n];
            let mut b = vec![0.0; n];
            for f in a0..b0 {
                let st = &states[frame_state[f]].0;
                for (wi, w) in windows.iter().enumerate() {
                    let l = w.len() / 2;
                    let r = w.len() - l - 1;
                    // span [f-l, f+r] must stay inside the island for dynamic windows
                    if wi != 0 && (f < a0 + l || f + r >= b0) {
                        continue;
                    }
                    let (mean, var) = st[vlen * wi + comp];
                    let p = precision(var);
                    for (k1, c1) in w.iter().enumerate() {
                        let i1 = f as isize + k1 as isize - l as isize;
                        if i1 < a0 as isize || i1 >= b0 as isize || *c1 == 0.0 {
                            continue;
                        }
                        b[(i1 as usize) - a0] += p * c1 * mean;
                        for (k2, c2) in w.iter().enumerate() {
                            let i2 = f as isize + k2 as isize - l as isize;
                            if i2 < a0 as isize || i2 >= b0 as isize {
                                continue;
                            }
                            a[(i1 as usize) - a0][(i2 as usize) - a0] += p * c1 * c2;
                        }
                    }
                }
            }
            let x = solve_dense(&mut a, &mut b);
            for (i, v) in x.into_iter().enumerate() {
                out[a0 + i][comp] = v;
            }
        }
    }
    out
}

/// Linear-time optimality test for long trajectories: the gradient of the log-likelihood of `got` under the same
/// definition as `mlpg_reference`, frame by frame (the normal equations W'U^-1 W c = W'U^-1 mu hold iff it vanishes;
/// the matrix is positive definite because every voiced frame has a static observation of finite variance).
/// Returns (worst |gradient| relative to the sum of the magnitudes of its terms, frame, component), or an error text
/// when the voicing pattern of `got` is wrong.
pub fn mlpg_gradient_residual(
    states: &[(Vec<(f64, f64)>, bool)],
    durations: &[usize],
    windows: &[Vec<f64>],
    vlen: usize,
    got: &[Vec<f64>],
) -> Result<(f64, usize, usize), String> {
    let mut frame_state = Vec::new();
    for (s, d) in durations.iter().enumerate() {
        for _ in 0..*d {
            frame_state.push(s);
        }
    }
    let t_total = frame_state.len();
    if got.len() != t_total {
        return Err(format!("{} frames, want {}", got.len(), t_total));
    }
    let voiced: Vec<bool> = frame_state.iter().map(|s| states[*s].1).collect();
    for t in 0..t_total {
        for k in 0..vlen {
            if voiced[t] == (got[t][k].to_bits() == NODATA.to_bits()) {
                return Err(format!("frame {} comp {}: voiced={} but value {}", t, k, voiced[t], got[t][k]));
            }
        }
    }
    let mut worst = (0.0f64, 0usize, 0usize);
    let mut t = 0;
    while t < t_total {
        if !voiced[t] {
            t += 1;
            continue;
        }
        let a0 = t;
        while t < t_total && voiced[t] {
            t += 1;
        }
        let b0 = t;
        for comp in 0..vlen {
            let mut grad = vec![0.0f64; b0 - a0];
            let mut mag = vec![0.0f64; b0 - a0];
            for f in a0..b0 {
                let st = &states[frame_state[f]].0;
                for (wi, w) in windows.iter().enumerate() {
                    let l = w.len() / 2;
                    let r = w.len() - l - 1;
                    if wi != 0 && (f < a0 + l || f + r >= b0) {
                        continue;
                    }
                    let (mean, var) = st[vlen * wi + comp];
                    let p = precision(var);
                    let mut o = 0.0;
                    let mut oabs = 0.0;
                    for (k, c) in w.iter().enumerate() {
                        let i = f as isize + k as isize - l as isize;
                        if i < a0 as isize || i >= b0 as isize {
                            continue;
                        }
                        o += c * got[i as usize][comp];
                        oabs += (c * got[i as usize][comp]).abs();
                    }
                    for (k, c) in w.iter().enumerate() {
                        let i = f as isize + k as isize - l as isize;
                        if i < a0 as isize || i >= b0 as isize || *c == 0.0 {
                            continue;
                        }
                        grad[i as usize - a0] += p * c * (o - mean);
                        mag[i as usize - a0] += p * c.abs() * (oabs + mean.abs());
                    }
                }
            }
            for i in 0..grad.len() {
                let rel = grad[i].abs() / mag[i].max(1e-300);
                if rel > worst.0 || rel.is_nan() {
                    worst = (if rel.is_nan() { f64::INFINITY } else { rel }, a0 + i, comp);
                }
            }
        }
    }
    Ok(worst)
}
