//! Closed-form spectral references: all-pass frequency warping, direct DFT, LSP -> A(z).

use std::f64::consts::PI;

pub fn warp(w: f64, a: f64) -> f64 {
    w + 2.0 * (a * w.sin()).atan2(1.0 - a * w.cos())
}

/// ln |sum_n h[n] e^{-jwn}|
pub fn logmag(h: &[f64], w: f64) -> f64 {
    let (mut re, mut im) = (0.0, 0.0);
    // recurrence-free direct evaluation (accuracy over speed)
    for (n, x) in h.iter().enumerate() {
        let ph = w * n as f64;
        re += x * ph.cos();
        im -= x * ph.sin();
    }
    0.5 * (re * re + im * im).ln()
}

/// log-magnitude of the mel-cepstral model spectrum at frequency w
pub fn mcep_logspec(c: &[f64], alpha: f64, w: f64) -> f64 {
    let wt = warp(w, alpha);
    (0..c.len()).map(|m| c[m] * (m as f64 * wt).cos()).sum()
}

fn poly_mul(a: &[f64], b: &[f64]) -> Vec<f64> {
    let mut out = vec![0.0; a.len() + b.len() - 1];
    for (i, x) in a.iter().enumerate() {
        for (j, y) in b.iter().enumerate() {
            out[i + j] += x * y;
        }
    }
    out
}

/// LPC polynomial A(z) = 1 + a1 z^-1 + .. + am z^-m whose line spectral frequencies are `w` (increasing, in (0,pi)).
pub fn lsp_to_a(w: &[f64]) -> Vec<f64> {
    let m = w.len();
    let mut p = vec![1.0];
    let mut q = vec![1.0];
    for (i, wi) in w.iter().enumerate() {
        let f = [1.0, -2.0 * wi.cos(), 1.0];
        if i % 2 == 0 {
            p = poly_mul(&p, &f);
        } else {
            q = poly_mul(&q, &f);
        }
    }
    if m % 2 == 0 {
        p = poly_mul(&p, &[1.0, 1.0]);
        q = poly_mul(&q, &[1.0, -1.0]);
    } else {
        q = poly_mul(&q, &[1.0, 0.0, -1.0]);
    }
    let n = p.len().max(q.len());
    let mut a = vec![0.0; n];
    for i in 0..n {
        a[i] = 0.5 * (p.get(i).copied().unwrap_or(0.0) + q.get(i).copied().unwrap_or(0.0));
    }
    a.truncate(m + 1);
    a
}

/// ln |A(e^{j wt})|
pub fn poly_logmag(a: &[f64], wt: f64) -> f64 {
    let (mut re, mut im) = (0.0, 0.0);
    for (n, x) in a.iter().enumerate() {
        re += x * (wt * n as f64).cos();
        im -= x * (wt * n as f64).sin();
    }
    0.5 * (re * re + im * im).ln()
}

pub fn freq_grid(n: usize) -> Vec<f64> {
    (0..n).map(|k| PI * k as f64 / (n - 1) as f64).collect()
}
