//! Independent reader of the `.htsvoice` container and HTS wildcard matcher.
//! Shares no code with the crate's nom/serde parser or with jlabel-question.

use std::collections::HashMap;

/// HTS pattern matching: '*' any run (incl. empty), '?' exactly one character.
pub fn glob(p: &[u8], s: &[u8]) -> bool {
    let (mut pi, mut si, mut star, mut mark) = (0usize, 0usize, usize::MAX, 0usize);
    while si < s.len() {
        if pi < p.len() && (p[pi] == b'?' || p[pi] == s[si]) {
            pi += 1;
            si += 1;
        } else if pi < p.len() && p[pi] == b'*' {
            star = pi;
            mark = si;
            pi += 1;
        } else if star != usize::MAX {
            pi = star + 1;
            mark += 1;
            si = mark;
        } else {
            return false;
        }
    }
    while pi < p.len() && p[pi] == b'*' {
        pi += 1;
    }
    pi == p.len()
}
pub fn any_glob(pats: &[String], s: &str) -> bool {
    pats.iter().any(|p| glob(p.as_bytes(), s.as_bytes()))
}

#[derive(Debug, Clone)]
pub enum Child {
    Node(i64),
    Leaf(usize),
}
#[derive(Debug, Clone)]
pub struct RTree {
    pub state: usize,
    pub root_leaf: Option<usize>,
    /// id of the first listed node: that is the root, whatever its number
    pub root: i64,
    pub nodes: HashMap<i64, (String, Child, Child)>,
}
#[derive(Debug, Clone)]
pub struct RModel {
    pub questions: HashMap<String, Vec<String>>,
    pub question_order: Vec<String>,
    pub trees: Vec<RTree>,
    pub pdfs: Vec<Vec<Vec<f32>>>,
}
#[derive(Debug)]
pub struct RVoice {
    pub global: HashMap<String, String>,
    pub stream: HashMap<String, String>,
    pub position: HashMap<String, String>,
    pub data: Vec<u8>,
}

fn leaf_id(tok: &str) -> Option<Child> {
    let t = tok.trim_matches('"');
    if !tok.starts_with('"') {
        if let Ok(n) = t.parse::<i64>() {
            return Some(Child::Node(n));
        }
    }
    let digits: String = t
        .chars()
        .rev()
        .take_while(|c| c.is_ascii_digit())
        .collect::<String>()
        .chars()
        .rev()
        .collect();
    digits.parse().ok().map(Child::Leaf)
}

impl RVoice {
    pub fn read(bytes: &[u8]) -> RVoice {
        let dp = bytes.windows(7).position(|w| w == b"[DATA]\n").expect("[DATA]") + 7;
        let header = std::str::from_utf8(&bytes[..dp]).expect("utf8 header");
        let mut sec = "";
        let (mut g, mut s, mut p) = (HashMap::new(), HashMap::new(), HashMap::new());
        for l in header.lines() {
            if l.starts_with('[') {
                sec = l;
                continue;
            }
            if let Some((k, v)) = l.split_once(':') {
                match sec {
                    "[GLOBAL]" => {
                        g.insert(k.to_string(), v.to_string());
                    }
                    "[STREAM]" => {
                        s.insert(k.to_string(), v.to_string());
                    }
                    "[POSITION]" => {
                        p.insert(k.to_string(), v.to_string());
                    }
                    _ => {}
                }
            }
        }
        RVoice { global: g, stream: s, position: p, data: bytes[dp..].to_vec() }
    }
    pub fn num(&self, key: &str) -> usize {
        self.global[key].parse().unwrap()
    }
    pub fn snum(&self, key: &str, stream: &str) -> usize {
        self.stream[&format!("{}[{}]", key, stream)].parse().unwrap()
    }
    pub fn streams(&self) -> Vec<String> {
        self.global["STREAM_TYPE"].split(',').map(|s| s.to_string()).collect()
    }
    pub fn range(&self, key: &str) -> Vec<(usize, usize)> {
        self.position[key]
            .split(',')
            .map(|r| {
                let (a, b) = r.split_once('-').unwrap();
                (a.parse().unwrap(), b.parse().unwrap())
            })
            .collect()
    }
    pub fn window(&self, stream: &str, wi: usize) -> Vec<f64> {
        let (a, b) = self.range(&format!("STREAM_WIN[{}]", stream))[wi];
        let t = std::str::from_utf8(&self.data[a..=b]).unwrap();
        let mut it = t.split_whitespace();
        let n: usize = it.next().unwrap().parse().unwrap();
        let v: Vec<f64> = it.map(|x| x.parse().unwrap()).collect();
        assert_eq!(n, v.len());
        v
    }
    pub fn model(&self, tree_key: &str, pdf_key: &str, pdf_len: usize) -> RModel {
        let (a, b) = self.range(tree_key)[0];
        let text = std::str::from_utf8(&self.data[a..=b]).unwrap();
        let mut questions = HashMap::new();
        let mut question_order = Vec::new();
        let mut trees = Vec::new();
        let toks: Vec<&str> = text.split_whitespace().collect();
        let mut i = 0;
        while i < toks.len() {
            if toks[i] == "QS" {
                let name = toks[i + 1];
                assert_eq!(toks[i + 2], "{");
                let mut j = i + 3;
                let mut pats = String::new();
                while toks[j] != "}" {
                    pats += toks[j];
                    j += 1;
                }
                questions.insert(
                    name.to_string(),
                    pats.split(',').map(|p| p.trim_matches('"').to_string()).collect(),
                );
                question_order.push(name.to_string());
                i = j + 1;
            } else if toks[i].starts_with("{*}[") {
                let state: usize = toks[i][4..toks[i].len() - 1].parse().unwrap();
                i += 1;
                if toks[i] == "{" {
                    i += 1;
                    let mut nodes = HashMap::new();
                    let mut root: Option<i64> = None;
                    while toks[i] != "}" {
                        let id: i64 = toks[i].parse().unwrap();
                        root.get_or_insert(id);
                        nodes.insert(
                            id,
                            (toks[i + 1].to_string(), leaf_id(toks[i + 2]).unwrap(), leaf_id(toks[i + 3]).unwrap()),
                        );
                        i += 4;
                    }
                    i += 1;
                    trees.push(RTree { state, root_leaf: None, root: root.unwrap_or(0), nodes });
                } else {
                    let Some(Child::Leaf(l)) = leaf_id(toks[i]) else { panic!("leaf expected") };
                    i += 1;
                    trees.push(RTree { state, root_leaf: Some(l), root: 0, nodes: HashMap::new() });
                }
            } else {
                panic!("unexpected token {}", toks[i]);
            }
        }
        let (a, _b) = self.range(pdf_key)[0];
        let mut o = a;
        let mut counts = Vec::new();
        for _ in 0..trees.len() {
            counts.push(u32::from_le_bytes(self.data[o..o + 4].try_into().unwrap()) as usize);
            o += 4;
        }
        let mut pdfs = Vec::new();
        for c in counts {
            let mut v = Vec::new();
            for _ in 0..c {
                let mut p = Vec::new();
                for _ in 0..pdf_len {
                    p.push(f32::from_le_bytes(self.data[o..o + 4].try_into().unwrap()));
                    o += 4;
                }
                v.push(p);
            }
            pdfs.push(v);
        }
        RModel { questions, question_order, trees, pdfs }
    }
}

impl RModel {
    /// (tree position, leaf id, pdf floats, path of (question name, answer))
    pub fn lookup(&self, state: usize, label: &str) -> (usize, usize, &Vec<f32>) {
        let ti = self.trees.iter().position(|t| t.state == state).expect("tree for state");
        let t = &self.trees[ti];
        let leaf = if let Some(l) = t.root_leaf {
            l
        } else {
            let mut id = t.root;
            loop {
                let (q, no, yes) = &t.nodes[&id];
                let ans = any_glob(&self.questions[q], label);
                match if ans { yes } else { no } {
                    Child::Leaf(l) => break *l,
                    Child::Node(n) => id = *n,
                }
            }
        };
        (ti, leaf, &self.pdfs[ti][leaf - 1])
    }
    /// all root->leaf paths of one tree: (leaf, [(question, answer)])
    pub fn paths(&self, ti: usize) -> Vec<(usize, Vec<(String, bool)>)> {
        let t = &self.trees[ti];
        let mut out = Vec::new();
        if let Some(l) = t.root_leaf {
            out.push((l, vec![]));
            return out;
        }
        let mut stack: Vec<(i64, Vec<(String, bool)>)> = vec![(t.root, vec![])];
        while let Some((id, path)) = stack.pop() {
            let (q, no, yes) = &t.nodes[&id];
            for (c, a) in [(no, false), (yes, true)] {
                let mut p = path.clone();
                p.push((q.clone(), a));
                match c {
                    Child::Leaf(l) => out.push((*l, p)),
                    Child::Node(n) => stack.push((*n, p)),
                }
            }
        }
        out
    }
}
