//! jbv – model-checking harness for jbonsai (see /verif/DESIGN.md).
#![allow(dead_code)]
mod common;
mod gen {
    pub mod cond;
    pub mod labels;
    pub mod voice;
}
mod explore {
    pub mod sched;
}
mod oracle {
    pub mod dense;
    pub mod dsp;
    pub mod reader;
}
mod debug;
mod props;

use common::Tier;

fn main() {
    common::install_panic_hook();
    common::silence_subject_stderr();
    let args: Vec<String> = std::env::args().collect();
    let code = match args.get(1).map(|s| s.as_str()) {
        Some("check") => {
            let id = args.get(2).expect("property id").to_uppercase();
            let tier = match args.get(3).map(|s| s.as_str()).or(std::env::var("VERIF_TIER").ok().as_deref().map(|_| "env")) {
                Some("thorough") => Tier::Thorough,
                Some("env") => {
                    if std::env::var("VERIF_TIER").unwrap() == "thorough" {
                        Tier::Thorough
                    } else {
                        Tier::Quick
                    }
                }
                _ => Tier::Quick,
            };
            props::run(&id, tier)
        }
        Some("replay") => props::replay(args.get(2).expect("replay file")),
        Some("debug") => debug::run(&args[2..]),
        Some("child") => props::child(&args[2..]),
        _ => {
            crate::elog!("usage: jbv check <Cxx> [quick|thorough] | jbv replay <file>");
            2
        }
    };
    std::process::exit(code);
}
