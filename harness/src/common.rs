//! Shared machinery: tiers, the per-check report (violations, known findings, evidence file),
//! a tiny work-stealing parallel loop and hashing helpers.

use serde_json::{json, Map, Value};
use std::collections::{BTreeMap, BTreeSet};
use std::sync::atomic::{AtomicU64, AtomicUsize, Ordering};
use std::sync::Mutex;
use std::time::Instant;

pub const VERIF: &str = "/verif";
pub const BUNDLED: &str =
    "/repo/models/hts_voice_nitech_jp_atr503_m001-1.05/nitech_jp_atr503_m001.htsvoice";

#[derive(Clone, Copy, PartialEq, Eq, Debug)]
pub enum Tier {
    Quick,
    Thorough,
}
impl Tier {
    pub fn name(self) -> &'static str {
        match self {
            Tier::Quick => "quick",
            Tier::Thorough => "thorough",
        }
    }
    pub fn pick<T>(self, q: T, t: T) -> T {
        match self {
            Tier::Quick => q,
            Tier::Thorough => t,
        }
    }
}

pub fn seed() -> u64 {
    std::env::var("VERIF_SEED").ok().and_then(|s| s.parse().ok()).unwrap_or(0)
}

pub fn nthreads() -> usize {
    std::env::var("JBV_THREADS")
        .ok()
        .and_then(|s| s.parse().ok())
        .unwrap_or_else(|| std::thread::available_parallelism().map(|n| n.get()).unwrap_or(8).min(16))
}

/// Run `f(i)` for every i in 0..n on all cores (dynamic chunks of `chunk`).
pub fn par_for<F: Fn(usize) + Sync>(n: usize, chunk: usize, f: F) {
    let next = AtomicUsize::new(0);
    let chunk = chunk.max(1);
    std::thread::scope(|s| {
        for _ in 0..nthreads().min(n.div_ceil(chunk)).max(1) {
            s.spawn(|| loop {
                let a = next.fetch_add(chunk, Ordering::Relaxed);
                if a >= n {
                    break;
                }
                for i in a..(a + chunk).min(n) {
                    f(i);
                }
            });
        }
    });
}

/// FNV-1a over bytes; used for distinctness counting only.
pub fn fnv(bytes: &[u8]) -> u64 {
    let mut h = 0xcbf29ce484222325u64;
    for b in bytes {
        h ^= *b as u64;
        h = h.wrapping_mul(0x100000001b3);
    }
    h
}
pub fn hash_f64s(v: &[f64]) -> u64 {
    let mut h = 0xcbf29ce484222325u64;
    for x in v {
        for b in x.to_bits().to_le_bytes() {
            h ^= b as u64;
            h = h.wrapping_mul(0x100000001b3);
        }
    }
    h ^ (v.len() as u64).wrapping_mul(0x9e3779b97f4a7c15)
}
pub fn bits_eq(a: &[f64], b: &[f64]) -> bool {
    a.len() == b.len() && a.iter().zip(b).all(|(x, y)| x.to_bits() == y.to_bits())
}
pub fn bits_eq2(a: &[Vec<f64>], b: &[Vec<f64>]) -> bool {
    a.len() == b.len() && a.iter().zip(b).all(|(x, y)| bits_eq(x, y))
}

/// Run a closure catching panics; returns Err(message) on panic.
pub fn catch<T>(f: impl FnOnce() -> T) -> Result<T, String> {
    match std::panic::catch_unwind(std::panic::AssertUnwindSafe(f)) {
        Ok(v) => Ok(v),
        Err(e) => {
            let msg = if let Some(s) = e.downcast_ref::<&str>() {
                s.to_string()
            } else if let Some(s) = e.downcast_ref::<String>() {
                s.clone()
            } else {
                "panic".to_string()
            };
            let loc = LAST_PANIC.with(|l| l.borrow_mut().take()).unwrap_or_default();
            Err(format!("{} @ {}", msg, loc))
        }
    }
}
thread_local! {
    pub static LAST_PANIC: std::cell::RefCell<Option<String>> = const { std::cell::RefCell::new(None) };
    pub static QUIET_PANIC: std::cell::Cell<bool> = const { std::cell::Cell::new(true) };
}
/// Install a panic hook that records the location per thread and stays quiet (subject panics are
/// expected events that the checks classify; harness bugs still surface through exit code 2).
pub fn install_panic_hook() {
    std::panic::set_hook(Box::new(|info| {
        let loc = info.location().map(|l| format!("{}:{}", l.file(), l.line())).unwrap_or_default();
        LAST_PANIC.with(|l| *l.borrow_mut() = Some(loc.clone()));
        if std::env::var("JBV_LOUD").is_ok() {
            eprintln!("panic: {}\n{}", info, std::backtrace::Backtrace::force_capture());
        }
    }));
}
/// Strip line numbers/absolute prefixes so that a known-finding key survives unrelated edits.
pub fn site_of(panic_msg: &str) -> String {
    // "... @ /repo/src/x/y.rs:123" -> "src/x/y.rs"
    let loc = panic_msg.rsplit(" @ ").next().unwrap_or("");
    let file = loc.rsplit_once(':').map(|x| x.0).unwrap_or(loc);
    let file = file.strip_prefix("/repo/").unwrap_or(file);
    if let Some(p) = file.find("/registry/src/") {
        let rest = &file[p + 14..];
        return rest.split_once('/').map(|x| x.1).unwrap_or(rest).to_string();
    }
    file.to_string()
}

static ELOG_FD: std::sync::atomic::AtomicI32 = std::sync::atomic::AtomicI32::new(2);
/// The crate under test writes diagnostics with eprintln!; millions of cases would flood stderr.
/// Keep a private copy of stderr for the harness' own messages and send fd 2 to /dev/null.
pub fn silence_subject_stderr() {
    if std::env::var("JBV_LOUD").is_ok() {
        return;
    }
    unsafe {
        let saved = libc::dup(2);
        if saved >= 0 {
            let null = libc::open(b"/dev/null\0".as_ptr() as *const libc::c_char, libc::O_WRONLY);
            if null >= 0 {
                libc::dup2(null, 2);
                libc::close(null);
                ELOG_FD.store(saved, Ordering::SeqCst);
            }
        }
    }
}
pub fn elog_str(s: &str) {
    let fd = ELOG_FD.load(Ordering::SeqCst);
    let mut line = s.to_string();
    line.push('\n');
    unsafe {
        libc::write(fd, line.as_ptr() as *const libc::c_void, line.len());
    }
}
#[macro_export]
macro_rules! elog {
    ($($arg:tt)*) => { $crate::common::elog_str(&format!($($arg)*)) };
}

pub struct Violation {
    pub key: String,
    pub what: String,
    pub replay: Value,
}

#[derive(Default)]
struct Inner {
    violations: Vec<Violation>,
    vio_count: BTreeMap<String, u64>,
    samples: Vec<Value>,
    notes: Map<String, Value>,
    distinct: BTreeSet<u64>,
    outcomes: BTreeSet<u64>,
    guards_failed: Vec<String>,
}

pub struct Report {
    pub id: &'static str,
    pub tier: Tier,
    pub level: &'static str,
    start: Instant,
    pub evaluations: AtomicU64,
    pub comparisons: AtomicU64,
    pub states: AtomicU64,
    pub transitions: AtomicU64,
    pub traces: AtomicU64,
    pub nontrivial: AtomicU64,
    inner: Mutex<Inner>,
    pub rule: Mutex<String>,
    pub assumptions: Mutex<Vec<String>>,
    pub exhaustive: Mutex<bool>,
}

impl Report {
    pub fn new(id: &'static str, tier: Tier, level: &'static str) -> Self {
        Report {
            id,
            tier,
            level,
            start: Instant::now(),
            evaluations: AtomicU64::new(0),
            comparisons: AtomicU64::new(0),
            states: AtomicU64::new(0),
            transitions: AtomicU64::new(0),
            traces: AtomicU64::new(0),
            nontrivial: AtomicU64::new(0),
            inner: Mutex::new(Inner::default()),
            rule: Mutex::new(String::new()),
            assumptions: Mutex::new(Vec::new()),
            exhaustive: Mutex::new(true),
        }
    }
    pub fn eval(&self, n: u64) {
        self.evaluations.fetch_add(n, Ordering::Relaxed);
    }
    pub fn cmp(&self, n: u64) {
        self.comparisons.fetch_add(n, Ordering::Relaxed);
    }
    /// Count a case as distinct + non-trivial (by the check's rule) via its descriptor hash.
    pub fn distinct(&self, h: u64) {
        let mut g = self.inner.lock().unwrap();
        if g.distinct.len() < 4_000_000 {
            g.distinct.insert(h);
        }
    }
    pub fn distinct_many(&self, hs: impl IntoIterator<Item = u64>) {
        let mut g = self.inner.lock().unwrap();
        for h in hs {
            if g.distinct.len() < 4_000_000 {
                g.distinct.insert(h);
            }
        }
    }
    pub fn outcome(&self, h: u64) {
        let mut g = self.inner.lock().unwrap();
        if g.outcomes.len() < 1_000_000 {
            g.outcomes.insert(h);
        }
    }
    pub fn sample(&self, v: Value) {
        let mut g = self.inner.lock().unwrap();
        if g.samples.len() < 6 {
            g.samples.push(v);
        }
    }
    /// Always keep this as the last sample.
    pub fn sample_last(&self, v: Value) {
        let mut g = self.inner.lock().unwrap();
        if g.samples.len() >= 6 {
            g.samples.pop();
        }
        g.samples.push(v);
    }
    pub fn note(&self, k: &str, v: Value) {
        self.inner.lock().unwrap().notes.insert(k.to_string(), v);
    }
    pub fn assume(&self, s: &str) {
        self.assumptions.lock().unwrap().push(s.to_string());
    }
    pub fn set_rule(&self, s: &str) {
        *self.rule.lock().unwrap() = s.to_string();
    }
    pub fn not_exhaustive(&self, why: &str) {
        *self.exhaustive.lock().unwrap() = false;
        self.note("cap_hit", json!(why));
    }
    pub fn violation(&self, key: impl Into<String>, what: impl Into<String>, replay: Value) {
        let key = key.into();
        let mut g = self.inner.lock().unwrap();
        let c = g.vio_count.entry(key.clone()).or_insert(0);
        *c += 1;
        if *c == 1 || (*c <= 3 && g.violations.len() < 200) {
            g.violations.push(Violation { key, what: what.into(), replay });
        }
    }
    pub fn violation_count(&self) -> u64 {
        self.inner.lock().unwrap().vio_count.values().sum()
    }
    /// A non-vacuity guard: failing it is a machinery error (exit 2), never a verdict.
    pub fn guard(&self, ok: bool, what: &str) {
        if !ok {
            self.inner.lock().unwrap().guards_failed.push(what.to_string());
        }
    }
    pub fn elapsed(&self) -> f64 {
        self.start.elapsed().as_secs_f64()
    }

    /// Like `par_for`, with a watchdog: if one chunk of jobs does not finish within the limit (a hang in the code
    /// under test), the run reports a VIOLATION naming that chunk, writes its evidence and exits 1 – a check must
    /// never sit silently on an infinite loop.
    pub fn par_for<F: Fn(usize) + Sync>(&self, n: usize, chunk: usize, what: &str, f: F) {
        let limit = std::time::Duration::from_secs(std::env::var("JBV_HANG_LIMIT_S").ok().and_then(|v| v.parse().ok()).unwrap_or(match self.tier {
            Tier::Quick => 120,
            Tier::Thorough => 600,
        }));
        let next = AtomicUsize::new(0);
        let chunk = chunk.max(1);
        let workers = nthreads().min(n.div_ceil(chunk)).max(1);
        let slots: Vec<Mutex<Option<(Instant, usize)>>> = (0..workers).map(|_| Mutex::new(None)).collect();
        let done = std::sync::atomic::AtomicBool::new(false);
        let done_signal = (Mutex::new(()), std::sync::Condvar::new());
        std::thread::scope(|s| {
            s.spawn(|| {
                while !done.load(Ordering::Relaxed) {
                    {
                        // sleep up to 200 ms, but wake immediately when the workers are finished
                        let g = done_signal.0.lock().unwrap();
                        if !done.load(Ordering::Relaxed) {
                            let _ = done_signal.1.wait_timeout(g, std::time::Duration::from_millis(200)).unwrap();
                        }
                    }
                    for slot in &slots {
                        let cur = *slot.lock().unwrap();
                        if let Some((t0, a)) = cur {
                            if t0.elapsed() > limit {
                                self.violation(
                                    "hang",
                                    format!("{}: a case among jobs {}..{} did not finish within {} s (infinite loop or runaway computation in the code under test)", what, a, (a + chunk).min(n), limit.as_secs()),
                                    json!({"check_part": what, "job_range": [a, (a + chunk).min(n)], "jobs_total": n, "limit_s": limit.as_secs()}),
                                );
                                self.not_exhaustive("stopped by the hang watchdog");
                                let code = self.finish_ref();
                                std::process::exit(if code == 0 { 1 } else { code });
                            }
                        }
                    }
                }
            });
            let handles: Vec<_> = (0..workers)
                .map(|w| {
                    let slots = &slots;
                    let next = &next;
                    let f = &f;
                    s.spawn(move || loop {
                        let a = next.fetch_add(chunk, Ordering::Relaxed);
                        if a >= n {
                            *slots[w].lock().unwrap() = None;
                            break;
                        }
                        *slots[w].lock().unwrap() = Some((Instant::now(), a));
                        for i in a..(a + chunk).min(n) {
                            f(i);
                        }
                    })
                })
                .collect();
            let mut worker_panicked = false;
            for h in handles {
                worker_panicked |= h.join().is_err();
            }
            {
                let _g = done_signal.0.lock().unwrap();
                done.store(true, Ordering::Relaxed);
                done_signal.1.notify_all();
            }
            if worker_panicked {
                panic!("a worker of {} panicked outside a monitored case (harness error)", what);
            }
        });
    }

    /// Write evidence, print verdict lines, return the process exit code.
    pub fn finish(self) -> i32 {
        self.finish_ref()
    }
    pub fn finish_ref(&self) -> i32 {
        let findings = Findings::load();
        let inner = std::mem::take(&mut *self.inner.lock().unwrap());
        let mut known_seen: BTreeMap<String, (String, u64)> = BTreeMap::new();
        let mut new_vios: Vec<&Violation> = Vec::new();
        let mut seen_new_keys: BTreeMap<String, usize> = BTreeMap::new();
        for v in &inner.violations {
            if let Some(desc) = findings.open_match(self.id, &v.key) {
                known_seen.entry(v.key.clone()).or_insert((desc, inner.vio_count[&v.key]));
            } else {
                let c = seen_new_keys.entry(v.key.clone()).or_insert(0);
                *c += 1;
                if *c <= 2 {
                    new_vios.push(v);
                }
            }
        }
        let new_total: u64 = inner
            .vio_count
            .iter()
            .filter(|(k, _)| findings.open_match(self.id, k).is_none())
            .map(|(_, c)| *c)
            .sum();
        // JBV_OUT redirects evidence and replay files (used for background experiments only; registered commands never set it)
        let out_base = std::env::var("JBV_OUT").unwrap_or_else(|_| VERIF.to_string());
        let dir = format!("{}/replays/{}", out_base, self.id);
        let _ = std::fs::create_dir_all(&dir);
        // clear old replay files of this property
        if let Ok(rd) = std::fs::read_dir(&dir) {
            for e in rd.flatten() {
                let _ = std::fs::remove_file(e.path());
            }
        }
        let mut printed = 0;
        for (n, v) in new_vios.iter().enumerate() {
            let path = format!("{}/{}.json", dir, n);
            let body = json!({"property": self.id, "key": v.key, "what": v.what, "tier": self.tier.name(), "replay": v.replay});
            let _ = std::fs::write(&path, serde_json::to_string_pretty(&body).unwrap());
            if printed < 10 {
                println!("VIOLATION property={} replay={}", self.id, path);
                println!("  key={} :: {}", v.key, v.what);
                printed += 1;
            }
        }
        for (k, (desc, n)) in &known_seen {
            println!("KNOWN-FINDING: property={} key={} {} (seen {}x)", self.id, k, desc, n);
        }
        let wall = self.start.elapsed().as_secs_f64();
        let evaluations = self.evaluations.load(Ordering::Relaxed);
        let distinct_n = inner.distinct.len() as u64;
        let nontrivial = self.nontrivial.load(Ordering::Relaxed);
        let distinct_nontrivial = if nontrivial > 0 { nontrivial.min(distinct_n.max(nontrivial)) } else { distinct_n };
        let mut cov = Map::new();
        cov.insert("evaluations".into(), json!(evaluations));
        cov.insert("distinct_nontrivial".into(), json!(distinct_nontrivial));
        cov.insert("distinct_cases_hashed".into(), json!(distinct_n));
        cov.insert("rule".into(), json!(*self.rule.lock().unwrap()));
        cov.insert("samples".into(), Value::Array(inner.samples.clone()));
        let st = self.states.load(Ordering::Relaxed);
        let tr = self.transitions.load(Ordering::Relaxed);
        cov.insert("states".into(), json!(if st > 0 { st } else if distinct_n > 0 { distinct_n } else { evaluations.max(1) }));
        cov.insert("transitions".into(), json!(if tr > 0 { tr } else { evaluations.max(1) }));
        cov.insert(
            "traces_validated_against_impl".into(),
            json!(match self.traces.load(Ordering::Relaxed) {
                0 => evaluations,
                t => t,
            }),
        );
        cov.insert("oracle_comparisons".into(), json!(self.comparisons.load(Ordering::Relaxed)));
        if !inner.outcomes.is_empty() {
            cov.insert("distinct_outcomes".into(), json!(inner.outcomes.len()));
        }
        cov.insert("exhaustive".into(), json!(*self.exhaustive.lock().unwrap()));
        cov.insert(
            "known_findings_seen".into(),
            json!(known_seen.iter().map(|(k, (_, n))| json!({"key": k, "count": n})).collect::<Vec<_>>()),
        );
        for (k, v) in inner.notes {
            cov.insert(k, v);
        }
        // the thorough tier also runs the quick enumeration under other build configurations of the crate (./run): their
        // own evidence files are summarised here
        if let Ok(alt) = std::env::var("JBV_ALT") {
            let mut list = Vec::new();
            for (name, what) in [("plain", "stable toolchain, no debug assertions, wrapping arithmetic (what a downstream release build gives)"), ("native", "as plain, compiled with -C target-cpu=native (all target features of this machine: avx, fma, ...)"), ("simd", "nightly toolchain, cargo feature simd, no debug assertions, wrapping arithmetic")] {
                if let Ok(t) = std::fs::read_to_string(format!("{}/{}/evidence/{}.json", alt, name, self.id)) {
                    if let Ok(v) = serde_json::from_str::<Value>(&t) {
                        list.push(json!({"build": name, "configuration": what, "tier": v["tier"], "evaluations": v["coverage"]["evaluations"], "oracle_comparisons": v["coverage"]["oracle_comparisons"], "violations": v["violations"], "wall_s": v["wall_s"]}));
                    }
                }
            }
            cov.insert("alternative_builds".into(), Value::Array(list));
        }
        let ev = json!({
            "property_id": self.id,
            "tier": self.tier.name(),
            "seed": seed(),
            "level": self.level,
            "coverage": Value::Object(cov),
            "assumptions": *self.assumptions.lock().unwrap(),
            "wall_s": (wall * 1000.0).round() / 1000.0,
            "violations": new_total,
            "guards_failed": inner.guards_failed,
        });
        let _ = std::fs::create_dir_all(format!("{}/evidence", out_base));
        let path = format!("{}/evidence/{}.json", out_base, self.id);
        std::fs::write(&path, serde_json::to_string_pretty(&ev).unwrap()).expect("write evidence");
        crate::elog!(
            "[{} {}] evaluations={} distinct={} comparisons={} outcomes={} violations(new)={} known={} wall={:.1}s",
            self.id,
            self.tier.name(),
            evaluations,
            distinct_nontrivial,
            self.comparisons.load(Ordering::Relaxed),
            inner.outcomes.len(),
            new_total,
            known_seen.len(),
            wall
        );
        if new_total > 0 {
            return 1;
        }
        if !inner.guards_failed.is_empty() {
            for g in &inner.guards_failed {
                crate::elog!("MACHINERY: non-vacuity guard failed for {}: {}", self.id, g);
            }
            return 2;
        }
        0
    }
}

/// Watches individually entered operations (used inside stateright models, whose worker threads the harness does
/// not own): if one stays entered longer than the limit, a `hang` violation naming it is reported and the
/// process exits with the check's verdict.
pub struct HangMonitor {
    slots: std::sync::Arc<Mutex<std::collections::HashMap<std::thread::ThreadId, (Instant, String)>>>,
    stop: std::sync::Arc<std::sync::atomic::AtomicBool>,
}
pub struct HangGuard<'a>(&'a HangMonitor);
impl HangMonitor {
    pub fn start(rep: &'static Report, what: &'static str) -> Self {
        let limit = std::time::Duration::from_secs(std::env::var("JBV_HANG_LIMIT_S").ok().and_then(|v| v.parse().ok()).unwrap_or(match rep.tier {
            Tier::Quick => 120,
            Tier::Thorough => 600,
        }));
        let slots: std::sync::Arc<Mutex<std::collections::HashMap<std::thread::ThreadId, (Instant, String)>>> = Default::default();
        let stop = std::sync::Arc::new(std::sync::atomic::AtomicBool::new(false));
        let (s2, st2) = (slots.clone(), stop.clone());
        std::thread::spawn(move || {
            while !st2.load(Ordering::Relaxed) {
                std::thread::sleep(std::time::Duration::from_millis(250));
                let hung = s2.lock().unwrap().values().find(|(t0, _)| t0.elapsed() > limit).map(|x| x.1.clone());
                if let Some(desc) = hung {
                    rep.violation("hang", format!("{}: operation did not finish within {} s: {}", what, limit.as_secs(), desc), json!({"check_part": what, "operation": desc, "limit_s": limit.as_secs()}));
                    rep.not_exhaustive("stopped by the hang watchdog");
                    let code = rep.finish_ref();
                    std::process::exit(if code == 0 { 1 } else { code });
                }
            }
        });
        HangMonitor { slots, stop }
    }
    pub fn enter(&self, desc: impl FnOnce() -> String) -> HangGuard<'_> {
        self.slots.lock().unwrap().insert(std::thread::current().id(), (Instant::now(), desc()));
        HangGuard(self)
    }
}
impl Drop for HangGuard<'_> {
    fn drop(&mut self) {
        self.0.slots.lock().unwrap().remove(&std::thread::current().id());
    }
}
impl Drop for HangMonitor {
    fn drop(&mut self) {
        self.stop.store(true, Ordering::Relaxed);
    }
}

/// Runs cases start..end in child processes of this binary (`jbv child <args…> <from> <to>`), so that an abort
/// (allocation failure, stack overflow) or a hang in the code under test is attributed to one case instead of
/// killing the check. Protocol on the child's stdout: `S <i>` before case i, `R <i> <text>` after it.
/// `on_result(i, text)` is called for every finished case, `on_crash(i, why)` for a case the child died or hung in.
pub fn run_isolated(child_args: &[String], start: usize, end: usize, per_case_timeout_s: u64, on_result: &(dyn Fn(usize, &str) + Sync), on_crash: &(dyn Fn(usize, &str) + Sync)) -> Result<(), String> {
    use std::io::{BufRead, BufReader};
    use std::process::{Command, Stdio};
    let exe = std::env::current_exe().map_err(|e| e.to_string())?;
    let mut next = start;
    while next < end {
        let mut args: Vec<String> = vec!["child".into()];
        args.extend(child_args.iter().cloned());
        args.push(next.to_string());
        args.push(end.to_string());
        let mut ch = Command::new(&exe).args(&args).stdout(Stdio::piped()).stderr(Stdio::null()).spawn().map_err(|e| e.to_string())?;
        let out = ch.stdout.take().unwrap();
        let (tx, rx) = std::sync::mpsc::channel::<String>();
        let th = std::thread::spawn(move || {
            for line in BufReader::new(out).lines().map_while(Result::ok) {
                if tx.send(line).is_err() {
                    break;
                }
            }
        });
        let mut current: Option<usize> = None;
        let mut died: Option<&str> = None;
        loop {
            match rx.recv_timeout(std::time::Duration::from_secs(per_case_timeout_s)) {
                Ok(line) => {
                    let mut it = line.splitn(3, ' ');
                    match (it.next(), it.next().and_then(|x| x.parse::<usize>().ok())) {
                        (Some("S"), Some(i)) => current = Some(i),
                        (Some("R"), Some(i)) => {
                            current = None;
                            next = i + 1;
                            on_result(i, it.next().unwrap_or(""));
                        }
                        _ => {}
                    }
                }
                Err(std::sync::mpsc::RecvTimeoutError::Timeout) => {
                    let _ = ch.kill();
                    died = Some("timeout");
                    break;
                }
                Err(std::sync::mpsc::RecvTimeoutError::Disconnected) => break,
            }
        }
        let status = ch.wait().ok();
        let _ = th.join();
        if let Some(i) = current {
            on_crash(i, &format!("{} (status {:?})", died.unwrap_or("abort/kill"), status));
            next = i + 1;
        } else if next < end {
            return Err(format!("child ended early at case {} (status {:?})", next, status));
        }
    }
    Ok(())
}

pub struct Findings {
    open: Vec<(String, String, String)>, // (property, key, description)
}
impl Findings {
    pub fn load() -> Self {
        let mut open = Vec::new();
        if let Ok(s) = std::fs::read_to_string(format!("{}/known-findings.txt", VERIF)) {
            for line in s.lines() {
                let line = line.trim();
                if let Some(rest) = line.strip_prefix("open:") {
                    let rest = rest.trim();
                    let mut prop = String::new();
                    let mut key = String::new();
                    let mut desc = Vec::new();
                    for tok in rest.split(' ') {
                        if let Some(p) = tok.strip_prefix("property=") {
                            if prop.is_empty() {
                                prop = p.to_string();
                                continue;
                            }
                        }
                        if let Some(k) = tok.strip_prefix("key=") {
                            if key.is_empty() {
                                key = k.to_string();
                                continue;
                            }
                        }
                        desc.push(tok);
                    }
                    if !prop.is_empty() && !key.is_empty() {
                        open.push((prop, key, desc.join(" ")));
                    }
                }
            }
        }
        Findings { open }
    }
    pub fn open_match(&self, prop: &str, key: &str) -> Option<String> {
        self.open.iter().find(|(p, k, _)| p == prop && k == key).map(|(_, _, d)| d.clone())
    }
}

pub fn tmp_path(tag: &str) -> String {
    static N: AtomicU64 = AtomicU64::new(0);
    let n = N.fetch_add(1, Ordering::Relaxed);
    let base = if std::path::Path::new("/dev/shm").is_dir() { "/dev/shm".to_string() } else { std::env::temp_dir().to_string_lossy().to_string() };
    format!("{}/jbv-{}-{}-{}", base, std::process::id(), tag, n)
}

/// Load a voice from bytes through the crate's real loader (temp file, removed afterwards).
pub fn load_voice_bytes(bytes: &[u8]) -> Result<jbonsai::model::Voice, jbonsai::model::ModelError> {
    let p = tmp_path("v.htsvoice");
    std::fs::write(&p, bytes).expect("write temp voice");
    let r = jbonsai::model::load_htsvoice_file(&p);
    let _ = std::fs::remove_file(&p);
    r
}

pub fn engine_from_voices(voices: Vec<std::sync::Arc<jbonsai::model::Voice>>) -> Result<jbonsai::Engine, jbonsai::EngineError> {
    let vs = jbonsai::model::VoiceSet::new(voices)?;
    let mut c = jbonsai::Condition::default();
    c.load_model(&vs)?;
    Ok(jbonsai::Engine::new(vs, c))
}
pub fn engine_from_bytes(bytes: &[u8]) -> Result<jbonsai::Engine, jbonsai::EngineError> {
    let v = load_voice_bytes(bytes)?;
    engine_from_voices(vec![std::sync::Arc::new(v)])
}

/// The voicing weight of a PDF as an option, whether the crate stores it as `Option<f64>` (today) or as a plain `f64`
/// with `f64::MAX` standing for "no multi-space distribution" (a representation change must not stop the harness
/// from compiling: it is the behaviour that is checked).
pub trait MsdLike {
    fn opt(&self) -> Option<f64>;
}
impl MsdLike for Option<f64> {
    fn opt(&self) -> Option<f64> {
        *self
    }
}
impl MsdLike for f64 {
    fn opt(&self) -> Option<f64> {
        if *self == f64::MAX {
            None
        } else {
            Some(*self)
        }
    }
}

// ---------------------------------------------------------------------------------------------
// the process environment as part of the history: a standard error stream that cannot be written
// ---------------------------------------------------------------------------------------------
/// child `jbv child fullstderr <scenario>…`: points fd 2 at /dev/full (every write fails with ENOSPC) and runs the
/// named scenarios, each of which makes the library take a path on which it may want to say something. Prints
/// `<scenario> ok` / `<scenario> BAD <text>` on stdout.
pub fn child_fullstderr(args: &[String]) -> i32 {
    use std::io::Write;
    unsafe {
        let fd = libc::open(b"/dev/full\0".as_ptr() as *const libc::c_char, libc::O_WRONLY);
        if fd < 0 {
            println!("SKIP no /dev/full");
            return 0;
        }
        libc::dup2(fd, 2);
        libc::close(fd);
    }
    let corpus = crate::gen::labels::corpus();
    let cfg = crate::gen::voice::GenCfg { nstate: 2, ..crate::gen::voice::GenCfg::default() };
    for sc in args {
        let r: Result<Result<(), String>, String> = catch(|| -> Result<(), String> {
            match sc.as_str() {
                "unknown-option" => {
                    let mut spec = cfg.spec();
                    spec.streams[0].options.push("FOO=1".into());
                    spec.streams[0].options.push("BAR".into());
                    let e = engine_from_bytes(&crate::gen::voice::write(&spec)).map_err(|e| format!("a voice with unknown option entries is rejected: {}", e))?;
                    e.synthesize(&corpus[40..42]).map(|_| ()).map_err(|e| e.to_string())
                }
                "untimed-final-label" => {
                    let mut e = engine_from_bytes(&cfg.bytes()).map_err(|e| e.to_string())?;
                    e.condition.set_phoneme_alignment_flag(true);
                    let lines = vec![format!("0 1000000 {}", corpus[40]), corpus[41].clone()];
                    let w = e.synthesize(&lines[..]).map_err(|e| e.to_string())?;
                    if w.is_empty() {
                        return Err("empty waveform".into());
                    }
                    Ok(())
                }
                "finish-after-steps" => {
                    let e = engine_from_bytes(&cfg.bytes()).map_err(|e| e.to_string())?;
                    let u = &corpus[40..42];
                    let one = e.synthesize(u).map_err(|e| e.to_string())?;
                    let mut g = e.generator(u).map_err(|e| e.to_string())?;
                    let fp = g.fperiod();
                    let mut buf = vec![0.0; fp];
                    g.generate_step(&mut buf);
                    let rest = g.generate_all();
                    if !bits_eq(&rest, &one[fp..]) {
                        return Err("generate_all after one step is not the suffix of the one-shot waveform".into());
                    }
                    Ok(())
                }
                "voiceset-rejection" => {
                    let a = std::sync::Arc::new(load_voice_bytes(&cfg.bytes()).map_err(|e| e.to_string())?);
                    let b = std::sync::Arc::new(load_voice_bytes(&crate::gen::voice::GenCfg { rate: 8000, ..cfg.clone() }.bytes()).map_err(|e| e.to_string())?);
                    let c = std::sync::Arc::new(load_voice_bytes(&crate::gen::voice::GenCfg { ns: 2, ..cfg.clone() }.bytes()).map_err(|e| e.to_string())?);
                    let d = std::sync::Arc::new(load_voice_bytes(&crate::gen::voice::GenCfg { order: 5, ..cfg.clone() }.bytes()).map_err(|e| e.to_string())?);
                    for (i, other) in [b, c, d].into_iter().enumerate() {
                        if jbonsai::model::VoiceSet::new(vec![a.clone(), other]).is_ok() {
                            return Err(format!("incompatible pair {} accepted", i));
                        }
                    }
                    if jbonsai::model::VoiceSet::new(vec![]).is_ok() {
                        return Err("empty voice list accepted".into());
                    }
                    Ok(())
                }
                "weights-rejection" => {
                    let mut e = engine_from_bytes(&cfg.bytes()).map_err(|e| e.to_string())?;
                    let iw = e.condition.get_interporation_weight_mut();
                    if iw.set_duration(&[0.5]).is_ok() || iw.set_parameter(0, &[1.0, 0.0]).is_ok() || iw.set_gv(0, &[f64::NAN]).is_ok() {
                        return Err("invalid weights accepted".into());
                    }
                    Ok(())
                }
                "label-error" => {
                    let e = engine_from_bytes(&cfg.bytes()).map_err(|e| e.to_string())?;
                    let bad = vec![format!("abc 100 {}", corpus[40])];
                    if e.synthesize(&bad[..]).is_ok() {
                        return Err("ill-formed line accepted".into());
                    }
                    let cut = vec![corpus[40].split("/K:").next().unwrap().to_string()];
                    if e.synthesize(&cut[..]).is_ok() {
                        return Err("ill-formed label accepted".into());
                    }
                    Ok(())
                }
                "loader-error" => {
                    let b = cfg.bytes();
                    for cut in [b.len() / 2, b.len() - 3, 40] {
                        if engine_from_bytes(&b[..cut]).is_ok() {
                            return Err(format!("voice truncated to {} bytes accepted", cut));
                        }
                    }
                    Ok(())
                }
                _ => Err("unknown scenario".into()),
            }
        });
        let line = match r {
            Ok(Ok(())) => format!("{} ok", sc),
            Ok(Err(e)) => format!("{} BAD {}", sc, e.replace('\n', " ")),
            Err(p) => format!("{} BAD panic: {}", sc, p.replace('\n', " ")),
        };
        println!("{}", line);
        let _ = std::io::stdout().flush();
    }
    0
}

/// Runs the listed scenarios in a child whose standard error cannot be written; a scenario that does not come back `ok`
/// (a panic, a wrong result, or the child dying) is a violation `stderr-unwritable:<scenario>`.
pub fn unwritable_stderr_part(rep: &Report, scenarios: &[&str]) {
    use std::process::{Command, Stdio};
    let Ok(exe) = std::env::current_exe() else { return };
    let mut args = vec!["child".to_string(), "fullstderr".to_string()];
    args.extend(scenarios.iter().map(|s| s.to_string()));
    let out = match Command::new(exe).args(&args).stdout(Stdio::piped()).stderr(Stdio::null()).stdin(Stdio::null()).output() {
        Ok(o) => o,
        Err(e) => {
            rep.guard(false, &format!("cannot start the unwritable-stderr child: {}", e));
            return;
        }
    };
    let text = String::from_utf8_lossy(&out.stdout).to_string();
    if text.starts_with("SKIP") {
        rep.note("unwritable_stderr", json!("skipped: no /dev/full on this system"));
        return;
    }
    for sc in scenarios {
        rep.eval(1);
        rep.cmp(1);
        let line = text.lines().find(|l| l.starts_with(&format!("{} ", sc)));
        let rp = json!({"environment": "standard error points at /dev/full (every write fails)", "scenario": sc});
        match line {
            Some(l) if l.ends_with(" ok") => {}
            Some(l) => rep.violation(format!("stderr-unwritable:{}", sc), format!("with a standard error stream that cannot be written: {}", l), rp),
            None => rep.violation(format!("stderr-unwritable:{}", sc), format!("with a standard error stream that cannot be written the process died in or before scenario {} (exit {:?})", sc, out.status.code()), rp),
        }
    }
    rep.note("unwritable_stderr", json!({"scenarios": scenarios}));
}
