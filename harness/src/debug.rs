//! scratch entry point for investigating violations (not part of any check)
use crate::common::*;
use crate::gen::cond::*;
pub fn run(_args: &[String]) -> i32 {
    let utts = crate::props::c03::utterances();
    for kind in [2usize, 3] {
        let base = crate::props::c03::engine_kind(kind);
        for (ui, u) in utts.iter().enumerate() {
            let w0 = synth(&base, u).unwrap();
            let t0 = trajectories(&base, u).unwrap();
            let voiced = t0.1.iter().filter(|f| f[0] != -1e10).count();
            print!("kind {} utt {} frames {} voiced {} :", kind, ui, t0.1.len(), voiced);
            for s in 0..5 {
                let e = crate::props::c03::engine_for_mask_pub(&base, 1 << s);
                let w = synth(&e, u).unwrap();
                print!(" setter{}:{}", s, if bits_eq(&w, &w0) { "same" } else { "DIFF" });
            }
            println!();
        }
    }
    0
}
