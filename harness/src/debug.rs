//! scratch entry point for investigating violations (not part of any check)
use crate::common::*;
use crate::gen::cond::*;
use crate::gen::voice::GenCfg;
pub fn run(_args: &[String]) -> i32 {
    let corpus = crate::gen::labels::corpus();
    let cfg = GenCfg { gv: true, nstate: 3, ..GenCfg::default() };
    let e0 = engine_from_bytes(&cfg.bytes()).unwrap();
    let u = vec![corpus[41].clone()];
    let t0 = trajectories(&e0, &u).unwrap();
    let mut e = e0.clone();
    e.condition.set_additional_half_tone(-24.0);
    let t = trajectories(&e, &u).unwrap();
    println!("lf0 0: {:?}", t0.1);
    println!("lf0 h: {:?}", t.1);
    let labs: Vec<jlabel::Label> = u.iter().map(|l| crate::gen::labels::parse(l)).collect();
    let models = jbonsai::model::Models::new(&labs, &e0.voices, e0.condition.get_interporation_weight());
    println!("{:?}", models.model_stream(1).stream);
    println!("{:?}", models.model_stream(1).gv);
    0
}
