//! Label alphabets: the 1456-line corpus, the cover set Λ, one-group recombinations, structural labels.

use std::collections::BTreeSet;

pub fn corpus() -> Vec<String> {
    std::fs::read_to_string(format!("{}/data/corpus.lab", crate::common::VERIF))
        .expect("corpus")
        .lines()
        .filter(|l| !l.is_empty())
        .map(|s| s.to_string())
        .collect()
}

pub fn parse(l: &str) -> jlabel::Label {
    l.parse().expect("well-formed label")
}

/// centre phoneme of a label string: between '-' and '+' of the phoneme part
pub fn centre(l: &str) -> &str {
    let a = l.find('-').map(|i| i + 1).unwrap_or(0);
    let b = l.find('+').unwrap_or(l.len());
    &l[a..b]
}

/// Λ: first corpus label per distinct centre phoneme, plus the first label per distinct value of
/// the interrogative flag (F3 position "#x_") and per GV-off context.
pub fn lambda(corpus: &[String]) -> Vec<String> {
    let mut seen = BTreeSet::new();
    let mut out = Vec::new();
    for l in corpus {
        if seen.insert(format!("c:{}", centre(l))) {
            out.push(l.clone());
        }
    }
    for l in corpus {
        // interrogative flag of current accent phrase: /F:a_b#c_
        if let Some(p) = l.find("/F:") {
            if let Some(h) = l[p..].find('#') {
                let flag = &l[p + h + 1..p + h + 2];
                if seen.insert(format!("f:{}", flag)) && !out.contains(l) {
                    out.push(l.clone());
                }
            }
        }
    }
    out
}

/// The 16 field groups of a label string: five phoneme slots and /A: .. /K: sections.
pub fn groups(l: &str) -> Vec<String> {
    // p2^p1-c+n1=n2/A:..../B:...
    let a = l.find("/A:").unwrap();
    let ph = &l[..a];
    let (p2, r) = ph.split_once('^').unwrap();
    let (p1, r) = r.split_once('-').unwrap();
    let (c, r) = r.split_once('+').unwrap();
    let (n1, n2) = r.split_once('=').unwrap();
    let mut out = vec![p2.to_string(), p1.to_string(), c.to_string(), n1.to_string(), n2.to_string()];
    let marks = ["/A:", "/B:", "/C:", "/D:", "/E:", "/F:", "/G:", "/H:", "/I:", "/J:", "/K:"];
    let rest = &l[a..];
    let mut idx: Vec<usize> = marks.iter().map(|m| rest.find(m).unwrap()).collect();
    idx.push(rest.len());
    for i in 0..marks.len() {
        out.push(rest[idx[i] + 3..idx[i + 1]].to_string());
    }
    out
}
pub fn join(g: &[String]) -> String {
    format!(
        "{}^{}-{}+{}={}/A:{}/B:{}/C:{}/D:{}/E:{}/F:{}/G:{}/H:{}/I:{}/J:{}/K:{}",
        g[0], g[1], g[2], g[3], g[4], g[5], g[6], g[7], g[8], g[9], g[10], g[11], g[12], g[13], g[14], g[15]
    )
}

/// RECOMB1: every label obtained from a base by replacing one field group with a donor's.
pub fn recomb1(bases: &[String], donors: &[String]) -> Vec<String> {
    let mut set = BTreeSet::new();
    let dg: Vec<Vec<String>> = donors.iter().map(|d| groups(d)).collect();
    for b in bases {
        let bg = groups(b);
        for gi in 0..16 {
            for d in &dg {
                if d[gi] != bg[gi] {
                    let mut g = bg.clone();
                    g[gi] = d[gi].clone();
                    set.insert(join(&g));
                }
            }
        }
    }
    set.into_iter().collect()
}

/// Structurally extreme labels, built as typed values (for the no-panic part only).
pub fn struct1(base: &jlabel::Label) -> Vec<jlabel::Label> {
    use jlabel::*;
    let mut out = Vec::new();
    let phon = [None, Some("a".to_string()), Some("sil".to_string()), Some("zz".to_string())];
    for slot in 0..5 {
        for p in &phon {
            let mut l = base.clone();
            match slot {
                0 => l.phoneme.p2 = p.clone(),
                1 => l.phoneme.p1 = p.clone(),
                2 => l.phoneme.c = p.clone(),
                3 => l.phoneme.n1 = p.clone(),
                _ => l.phoneme.n2 = p.clone(),
            }
            out.push(l);
        }
    }
    for v in [None, Some((0i8, 0u8, 0u8)), Some((1, 1, 1)), Some((-49, 49, 49)), Some((i8::MIN, u8::MAX, u8::MAX)), Some((i8::MAX, 0, u8::MAX))] {
        let mut l = base.clone();
        l.mora = v.map(|(a, b, c)| Mora { relative_accent_position: a, position_forward: b, position_backward: c });
        out.push(l);
    }
    for v in [None, Some(None), Some(Some(0u8)), Some(Some(1)), Some(Some(24)), Some(Some(u8::MAX))] {
        for which in 0..3 {
            let mut l = base.clone();
            let w = v.map(|x| Word { pos: x, ctype: x, cform: x });
            match which {
                0 => l.word_prev = w,
                1 => l.word_curr = w,
                _ => l.word_next = w,
            }
            out.push(l);
        }
    }
    for v in [None, Some(0u8), Some(1), Some(19), Some(u8::MAX)] {
        for b in [false, true] {
            let mut l = base.clone();
            l.accent_phrase_curr = v.map(|x| AccentPhraseCurrent {
                mora_count: x,
                accent_position: x,
                is_interrogative: b,
                accent_phrase_position_forward: x,
                accent_phrase_position_backward: x,
                mora_position_forward: x,
                mora_position_backward: x,
            });
            out.push(l);
            for which in 0..2 {
                for pause in [None, Some(false), Some(true)] {
                    let mut l = base.clone();
                    let a = v.map(|x| AccentPhrasePrevNext { mora_count: x, accent_position: x, is_interrogative: b, is_pause_insertion: pause });
                    if which == 0 {
                        l.accent_phrase_prev = a
                    } else {
                        l.accent_phrase_next = a
                    }
                    out.push(l);
                }
            }
        }
        let mut l = base.clone();
        l.breath_group_curr = v.map(|x| BreathGroupCurrent {
            accent_phrase_count: x,
            mora_count: x,
            breath_group_position_forward: x,
            breath_group_position_backward: x,
            accent_phrase_position_forward: x,
            accent_phrase_position_backward: x,
            mora_position_forward: x,
            mora_position_backward: x,
        });
        out.push(l);
        for which in 0..2 {
            let mut l = base.clone();
            let a = v.map(|x| BreathGroupPrevNext { accent_phrase_count: x, mora_count: x });
            if which == 0 {
                l.breath_group_prev = a
            } else {
                l.breath_group_next = a
            }
            out.push(l);
        }
        if let Some(x) = v {
            let mut l = base.clone();
            l.utterance = Utterance { breath_group_count: x, accent_phrase_count: x, mora_count: x };
            out.push(l);
        }
    }
    out
}

/// A few short utterances (index ranges into the corpus) used by many properties.
pub fn short_utterances(corpus: &[String]) -> Vec<Vec<String>> {
    let mut out = vec![vec![]];
    let lam = lambda(corpus);
    // 1 label: sil, a vowel, an unvoiced consonant, N, pau, cl when present
    for want in ["sil", "a", "k", "N", "pau", "cl", "I", "sh"] {
        if let Some(l) = lam.iter().find(|l| centre(l) == want) {
            out.push(vec![l.clone()]);
        }
    }
    out.push(corpus[0..3].to_vec());
    out.push(corpus[40..43].to_vec());
    out.push(corpus[100..108].to_vec());
    out
}
