//! Generated `.htsvoice` files: a spec (which doubles as the expected-value oracle) and a writer
//! that lays the container out like the bundled voice.

#[derive(Clone, Debug, PartialEq)]
pub enum TreeSpec {
    Leaf(usize),
    Node { q: usize, no: Box<TreeSpec>, yes: Box<TreeSpec> },
}
impl TreeSpec {
    pub fn node(q: usize, no: TreeSpec, yes: TreeSpec) -> TreeSpec {
        TreeSpec::Node { q, no: Box::new(no), yes: Box::new(yes) }
    }
    pub fn leaves(&self, out: &mut Vec<usize>) {
        match self {
            TreeSpec::Leaf(i) => out.push(*i),
            TreeSpec::Node { no, yes, .. } => {
                no.leaves(out);
                yes.leaves(out);
            }
        }
    }
    pub fn nleaves(&self) -> usize {
        let mut v = Vec::new();
        self.leaves(&mut v);
        v.len()
    }
    /// Walk with answers given by `ans(question index)`; returns leaf id.
    pub fn walk(&self, ans: &dyn Fn(usize) -> bool) -> usize {
        match self {
            TreeSpec::Leaf(i) => *i,
            TreeSpec::Node { q, no, yes } => {
                if ans(*q) {
                    yes.walk(ans)
                } else {
                    no.walk(ans)
                }
            }
        }
    }
}

#[derive(Clone, Debug)]
pub struct ModelSpec {
    pub prefix: String,
    pub questions: Vec<(String, Vec<String>)>,
    /// per tree: (state number as written, tree, pdfs (index = leaf id - 1), each a flat f32 vector)
    pub trees: Vec<(usize, TreeSpec, Vec<Vec<f32>>)>,
    pub quoted: bool,
    /// how the internal nodes of a tree are numbered and listed (all legal: the root comes first, every node after
    /// its parent): 0 ids 0,-1,-2,.. in listing order; 1 non-contiguous ids (0,-5,-8,..); 2 ids counted the other
    /// way round (0,-K,..,-1); 3 the rows of the yes-subtree listed before those of the no-subtree
    pub numbering: u8,
}
#[derive(Clone, Debug)]
pub struct StreamSpec {
    pub name: String,
    pub vlen: usize,
    pub is_msd: bool,
    pub use_gv: bool,
    pub options: Vec<String>,
    pub windows: Vec<Vec<f64>>,
    pub model: ModelSpec,
    pub gv: Option<ModelSpec>,
}
#[derive(Clone, Debug)]
pub struct VoiceSpec {
    pub rate: usize,
    pub fperiod: usize,
    pub nstate: usize,
    pub gv_off: Vec<String>,
    pub dur: ModelSpec,
    pub streams: Vec<StreamSpec>,
}

fn tree_text(m: &ModelSpec) -> Vec<u8> {
    let mut s = String::new();
    for (n, pats) in &m.questions {
        s += &format!(
            "QS {} {{ {} }}\n",
            n,
            pats.iter().map(|p| format!("\"{}\"", p)).collect::<Vec<_>>().join(",")
        );
    }
    s += "\n";
    for (state, t, _) in &m.trees {
        s += &format!("{{*}}[{}]\n", state);
        let leafname = |i: usize| {
            if m.quoted {
                format!("\"{}_s{}_{}\"", m.prefix, state, i)
            } else {
                format!("{}_s{}_{}", m.prefix, state, i)
            }
        };
        match t {
            TreeSpec::Leaf(i) => {
                s += &format!("   {}\n", leafname(*i));
            }
            _ => {
                s += "{\n";
                // child: Ok(leaf name) or Err(node id)
                let mut rows: Vec<(i64, usize, Result<String, i64>, Result<String, i64>)> = Vec::new();
                let mut next_id = 0i64;
                fn walk(
                    t: &TreeSpec,
                    id: i64,
                    next_id: &mut i64,
                    rows: &mut Vec<(i64, usize, Result<String, i64>, Result<String, i64>)>,
                    leaf: &dyn Fn(usize) -> String,
                    yes_first: bool,
                ) {
                    if let TreeSpec::Node { q, no, yes } = t {
                        let child = |c: &TreeSpec, next_id: &mut i64| -> Result<String, i64> {
                            match c {
                                TreeSpec::Leaf(i) => Ok(leaf(*i)),
                                _ => {
                                    *next_id -= 1;
                                    Err(*next_id)
                                }
                            }
                        };
                        let ns = child(no, next_id);
                        let ys = child(yes, next_id);
                        rows.push((id, *q, ns.clone(), ys.clone()));
                        let mut subs = vec![(no, ns), (yes, ys)];
                        if yes_first {
                            subs.reverse();
                        }
                        for (sub, r) in subs {
                            if let Err(i) = r {
                                walk(sub, i, next_id, rows, leaf, yes_first);
                            }
                        }
                    }
                }
                walk(t, 0, &mut next_id, &mut rows, &leafname, m.numbering == 3);
                let k = rows.len() as i64 - 1;
                let remap = |id: i64| -> i64 {
                    if id == 0 {
                        0
                    } else {
                        match m.numbering {
                            1 => -(3 * id.abs() + 2),
                            2 => -(k + 1 - id.abs()),
                            _ => id,
                        }
                    }
                };
                for (id, q, n, y) in rows {
                    let show = |c: Result<String, i64>| match c {
                        Ok(l) => l,
                        Err(i) => format!("{}", remap(i)),
                    };
                    s += &format!(" {:4} {:40} {:>16} {:>16} \n", remap(id), m.questions[q].0, show(n), show(y));
                }
                s += "}\n";
            }
        }
        s += "\n";
    }
    s.into_bytes()
}

fn pdf_bytes(m: &ModelSpec) -> Vec<u8> {
    let mut b = Vec::new();
    for (_, _, pdfs) in &m.trees {
        b.extend((pdfs.len() as u32).to_le_bytes());
    }
    for (_, _, pdfs) in &m.trees {
        for p in pdfs {
            for f in p {
                b.extend(f.to_le_bytes());
            }
        }
    }
    b
}

pub fn write(v: &VoiceSpec) -> Vec<u8> {
    write_layout(v, 0)
}

/// The same voice in another legal arrangement of the container. `layout` bits: 1 = the key lines of every header
/// section in reverse order, 2 = the data blocks stored in reverse order, 4 = three filler bytes before every data
/// block (the [POSITION] ranges say where everything is; nothing requires the blocks to be ordered or contiguous).
pub fn write_layout(v: &VoiceSpec, layout: u8) -> Vec<u8> {
    // blocks in the customary order, and for each [POSITION] key the blocks it lists
    let mut blocks: Vec<Vec<u8>> = Vec::new();
    let mut keys: Vec<(String, Vec<usize>)> = Vec::new();
    let mut put = |keys: &mut Vec<(String, Vec<usize>)>, key: String, bs: Vec<Vec<u8>>| {
        let mut idx = Vec::new();
        for b in bs {
            idx.push(blocks.len());
            blocks.push(b);
        }
        keys.push((key, idx));
    };
    put(&mut keys, "DURATION_PDF".into(), vec![pdf_bytes(&v.dur)]);
    put(&mut keys, "DURATION_TREE".into(), vec![tree_text(&v.dur)]);
    for s in &v.streams {
        let rows: Vec<Vec<u8>> = s.windows.iter().map(|w| format!("{} {}\n", w.len(), w.iter().map(|c| format!("{:?}", c)).collect::<Vec<_>>().join(" ")).into_bytes()).collect();
        put(&mut keys, format!("STREAM_WIN[{}]", s.name), rows);
    }
    for s in &v.streams {
        put(&mut keys, format!("STREAM_PDF[{}]", s.name), vec![pdf_bytes(&s.model)]);
    }
    for s in &v.streams {
        put(&mut keys, format!("STREAM_TREE[{}]", s.name), vec![tree_text(&s.model)]);
    }
    for s in &v.streams {
        if let Some(g) = &s.gv {
            put(&mut keys, format!("GV_PDF[{}]", s.name), vec![pdf_bytes(g)]);
        }
    }
    for s in &v.streams {
        if let Some(g) = &s.gv {
            put(&mut keys, format!("GV_TREE[{}]", s.name), vec![tree_text(g)]);
        }
    }
    let mut order: Vec<usize> = (0..blocks.len()).collect();
    if layout & 2 != 0 {
        order.reverse();
    }
    let mut data: Vec<u8> = Vec::new();
    let mut range = vec![String::new(); blocks.len()];
    for bi in order {
        if layout & 4 != 0 {
            data.extend(b"###");
        }
        let a = data.len();
        data.extend(&blocks[bi]);
        range[bi] = format!("{}-{}", a, data.len() - 1);
    }
    let names: Vec<&str> = v.streams.iter().map(|s| s.name.as_str()).collect();
    let mut global: Vec<String> = vec![
        "HTS_VOICE_VERSION:1.0".into(),
        format!("SAMPLING_FREQUENCY:{}", v.rate),
        format!("FRAME_PERIOD:{}", v.fperiod),
        format!("NUM_STATES:{}", v.nstate),
        format!("NUM_STREAMS:{}", v.streams.len()),
        format!("STREAM_TYPE:{}", names.join(",")),
        "FULLCONTEXT_FORMAT:HTS_TTS_JPN".into(),
        "FULLCONTEXT_VERSION:1.0".into(),
        format!("GV_OFF_CONTEXT:{}", v.gv_off.iter().map(|p| format!("\"{}\"", p)).collect::<Vec<_>>().join(",")),
        "COMMENT:".into(),
    ];
    let mut stream: Vec<String> = Vec::new();
    for s in &v.streams {
        stream.push(format!("VECTOR_LENGTH[{}]:{}", s.name, s.vlen));
    }
    for s in &v.streams {
        stream.push(format!("IS_MSD[{}]:{}", s.name, s.is_msd as u8));
    }
    for s in &v.streams {
        stream.push(format!("NUM_WINDOWS[{}]:{}", s.name, s.windows.len()));
    }
    for s in &v.streams {
        stream.push(format!("USE_GV[{}]:{}", s.name, s.use_gv as u8));
    }
    for s in &v.streams {
        stream.push(format!("OPTION[{}]:{}", s.name, s.options.join(",")));
    }
    let mut position: Vec<String> = keys.iter().map(|(k, idx)| format!("{}:{}", k, idx.iter().map(|i| range[*i].clone()).collect::<Vec<_>>().join(","))).collect();
    if layout & 1 != 0 {
        global.reverse();
        stream.reverse();
        position.reverse();
    }
    let mut h = String::new();
    h += "[GLOBAL]\n";
    for l in global {
        h += &l;
        h += "\n";
    }
    h += "[STREAM]\n";
    for l in stream {
        h += &l;
        h += "\n";
    }
    h += "[POSITION]\n";
    for l in position {
        h += &l;
        h += "\n";
    }
    h += "[DATA]\n";
    let mut out = h.into_bytes();
    out.extend(data);
    out
}

pub fn window_set(w: usize) -> Vec<Vec<f64>> {
    match w {
        0 => vec![vec![1.0]],
        1 => vec![vec![1.0], vec![-0.5, 0.0, 0.5]],
        2 => vec![vec![1.0], vec![-0.5, 0.0, 0.5], vec![1.0, -2.0, 1.0]],
        3 => vec![
            vec![1.0],
            vec![-0.2, -0.1, 0.0, 0.1, 0.2],
            vec![0.285714, -0.142857, -0.285714, -0.142857, 0.285714],
        ],
        // mixed widths: width-3 delta with width-5 delta-delta, and the reverse
        4 => vec![vec![1.0], vec![-0.5, 0.0, 0.5], vec![0.285714, -0.142857, -0.285714, -0.142857, 0.285714]],
        5 => vec![vec![1.0], vec![-0.2, -0.1, 0.0, 0.1, 0.2], vec![1.0, -2.0, 1.0]],
        // even-length windows (HTS: positions -n/2 .. n/2-1, so they reach further back than forward); in 6 the widest
        // window is even, in 7 the only dynamic window is the backward difference
        6 => vec![vec![1.0], vec![-1.0, 1.0], vec![0.5, -0.5, -0.5, 0.5]],
        7 => vec![vec![1.0], vec![-1.0, 1.0]],
        // four windows, the last one of width 7
        8 => vec![vec![1.0], vec![-0.5, 0.0, 0.5], vec![1.0, -2.0, 1.0], vec![-0.1, 0.05, 0.2, 0.0, -0.2, -0.05, 0.1]],
        // the static window stored with zero padding (width 3, resp. 2) - it still only looks at its own frame
        9 => vec![vec![0.0, 1.0, 0.0], vec![-0.5, 0.0, 0.5]],
        10 => vec![vec![0.0, 1.0, 0.0]],
        11 => vec![vec![0.0, 1.0], vec![-0.5, 0.0, 0.5], vec![1.0, -2.0, 1.0]],
        // the static window need not have the coefficient 1: scaled, alone and with dynamic windows, negative, scaled and padded
        12 => vec![vec![2.0]],
        13 => vec![vec![0.5], vec![-0.5, 0.0, 0.5]],
        14 => vec![vec![-1.0], vec![-1.0, 1.0], vec![1.0, -2.0, 1.0]],
        _ => vec![vec![0.0, 2.0, 0.0], vec![-0.5, 0.0, 0.5]],
    }
}
/// number of window sets `window_set` knows
pub const WINDOW_SETS: usize = 16;

pub fn default_questions() -> Vec<(String, Vec<String>)> {
    vec![
        ("C-Phone_Muon".to_string(), vec!["*-sil+*".to_string(), "*-pau+*".to_string()]),
        ("C-Phone_Boin_A".to_string(), vec!["*-a+*".to_string(), "*-A+*".to_string()]),
        (
            "C-Mora_diff_Acc-Type<=0".to_string(),
            vec!["*/A:-??+*".to_string(), "*/A:-?+*".to_string(), "*/A:0+*".to_string()],
        ),
        ("R-Phone_N".to_string(), vec!["*+N=*".to_string()]),
        // "the phoneme after next is undefined" (the last-but-one label of every sentence): asks about the xx marker
        ("RR-Phone_undefined".to_string(), vec!["*=xx/A:*".to_string()]),
    ]
}

/// Configuration of the generated-voice family G(ns, stage, nstate, W, gv, tree).
#[derive(Clone, Debug)]
pub struct GenCfg {
    pub ns: usize,
    pub stage: usize,
    pub log_gain: bool,
    pub nstate: usize,
    pub wset: usize,
    pub gv: bool,
    pub rate: usize,
    pub fperiod: usize,
    /// vector length of the spectrum stream (cepstral order + 1, or LSP order + 1)
    pub order: usize,
    pub lpf_taps: usize,
    /// 0 = single-leaf trees everywhere, 1 = 3-leaf trees on even states / single leaf on odd states
    pub tree: usize,
    pub quoted: bool,
    pub alpha: f64,
    /// multiplies duration means (controls utterance length)
    pub dur_scale: f32,
    /// selects an alternative value lattice (for "different trees / different Gaussians" voices)
    pub variant: u32,
    /// spectrum identically zero (identity filter) – used by end-to-end excitation checks
    pub zero_spectrum: bool,
}
impl Default for GenCfg {
    fn default() -> Self {
        GenCfg {
            ns: 3,
            stage: 0,
            log_gain: false,
            nstate: 2,
            wset: 2,
            gv: false,
            rate: 16000,
            fperiod: 80,
            order: 4,
            lpf_taps: 3,
            tree: 1,
            quoted: true,
            alpha: 0.42,
            dur_scale: 1.0,
            variant: 0,
            zero_spectrum: false,
        }
    }
}
impl GenCfg {
    pub fn describe(&self) -> String {
        format!(
            "G(ns={},stage={},lg={},n={},W={},gv={},rate={},fp={},order={},lpf={},tree={},q={},alpha={},dur={},var={},z={})",
            self.ns, self.stage, self.log_gain as u8, self.nstate, self.wset, self.gv as u8, self.rate, self.fperiod,
            self.order, self.lpf_taps, self.tree, self.quoted as u8, self.alpha, self.dur_scale, self.variant, self.zero_spectrum as u8
        )
    }
    /// inverse of `describe` (used by replay commands)
    pub fn parse(desc: &str) -> Option<GenCfg> {
        let inner = desc.strip_prefix("G(")?.split(')').next()?;
        let mut c = GenCfg::default();
        for kv in inner.split(',') {
            let (k, v) = kv.split_once('=')?;
            match k {
                "ns" => c.ns = v.parse().ok()?,
                "stage" => c.stage = v.parse().ok()?,
                "lg" => c.log_gain = v == "1",
                "n" => c.nstate = v.parse().ok()?,
                "W" => c.wset = v.parse().ok()?,
                "gv" => c.gv = v == "1",
                "rate" => c.rate = v.parse().ok()?,
                "fp" => c.fperiod = v.parse().ok()?,
                "order" => c.order = v.parse().ok()?,
                "lpf" => c.lpf_taps = v.parse().ok()?,
                "tree" => c.tree = v.parse().ok()?,
                "q" => c.quoted = v == "1",
                "alpha" => c.alpha = v.parse().ok()?,
                "dur" => c.dur_scale = v.parse().ok()?,
                "var" => c.variant = v.parse().ok()?,
                "z" => c.zero_spectrum = v == "1",
                _ => return None,
            }
        }
        Some(c)
    }
    fn tree_for(&self, s: usize) -> (TreeSpec, usize) {
        if self.tree == 0 || s % 2 == 1 {
            (TreeSpec::Leaf(1), 1)
        } else if self.tree == 2 {
            // trees that ask about an undefined phoneme slot first
            (TreeSpec::node(4, TreeSpec::node(0, TreeSpec::Leaf(2), TreeSpec::Leaf(3)), TreeSpec::Leaf(1)), 3)
        } else if self.variant % 2 == 0 {
            (TreeSpec::node(0, TreeSpec::node(1, TreeSpec::Leaf(3), TreeSpec::Leaf(1)), TreeSpec::Leaf(2)), 3)
        } else {
            // a different tree for "variant" voices: other questions, other leaf numbering
            (TreeSpec::node(1, TreeSpec::Leaf(1), TreeSpec::node(3, TreeSpec::Leaf(2), TreeSpec::Leaf(3))), 3)
        }
    }
    pub fn spec(&self) -> VoiceSpec {
        let qs = default_questions();
        let n = self.nstate;
        let var = self.variant as f32;
        let windows = window_set(self.wset);
        let nwin = windows.len();
        // duration: one tree (state 2) with pdf = n means + n variances
        let (dtree, dleaves) = if self.tree == 0 {
            (TreeSpec::Leaf(1), 1)
        } else if self.tree == 2 {
            (TreeSpec::node(4, TreeSpec::node(1, TreeSpec::Leaf(3), TreeSpec::Leaf(1)), TreeSpec::Leaf(2)), 3)
        } else {
            (TreeSpec::node(0, TreeSpec::node(1, TreeSpec::Leaf(3), TreeSpec::Leaf(1)), TreeSpec::Leaf(2)), 3)
        };
        let dur_means = [0.2f32, 1.6, 2.4, 0.45, 3.2, 1.2, 2.6];
        let dur = ModelSpec {
            prefix: "dur".into(),
            questions: qs.clone(),
            quoted: self.quoted,
            numbering: 0,
            trees: vec![(
                2,
                dtree,
                (0..dleaves)
                    .map(|leaf| {
                        let mut p: Vec<f32> = (0..n)
                            .map(|s| self.dur_scale * (dur_means[s % 7] + 0.5 * leaf as f32 + 0.25 * var))
                            .collect();
                        p.extend((0..n).map(|s| 1.0f32 + 0.5 * (s % 2) as f32));
                        p
                    })
                    .collect(),
            )],
        };
        let mk = |prefix: &str, vlen: usize, nwin: usize, msd: bool, base: &dyn Fn(usize, usize, usize) -> f32, svar: f32| -> ModelSpec {
            ModelSpec {
                prefix: prefix.into(),
                questions: qs.clone(),
                quoted: self.quoted,
                numbering: 0,
                trees: (0..n)
                    .map(|s| {
                        let (t, nl) = self.tree_for(s);
                        let pdfs = (1..=nl)
                            .map(|leaf| {
                                let mut p = Vec::new();
                                for w in 0..nwin {
                                    for k in 0..vlen {
                                        p.push(if w == 0 { base(s, leaf, k) } else { 0.0 });
                                    }
                                }
                                for w in 0..nwin {
                                    for _ in 0..vlen {
                                        p.push(if w == 0 { svar } else { svar * 0.5 });
                                    }
                                }
                                if msd {
                                    // voicing weights straddle the threshold alphabet {0,.05,.3,.5,.7,.95,1}
                                    let table = [0.9f32, 0.1, 0.6, 0.4, 0.97, 0.02, 0.75];
                                    p.push(table[(s * 2 + leaf + self.variant as usize) % 7]);
                                }
                                p
                            })
                            .collect();
                        (s + 2, t, pdfs)
                    })
                    .collect(),
            }
        };
        let order = self.order;
        let zero = self.zero_spectrum;
        let stage = self.stage;
        let log_gain = self.log_gain;
        let mcp_base: Box<dyn Fn(usize, usize, usize) -> f32> = if zero {
            Box::new(|_, _, _| 0.0)
        } else if stage == 0 {
            Box::new(move |s, l, k| {
                if k == 0 {
                    0.5 + 0.1 * l as f32 + 0.05 * s as f32 + 0.02 * var
                } else {
                    // sum_k |c_k| <= 1.2 for any order: shape within +-1.2 Np of the gain
                    let sign = if (k + l) % 2 == 0 { 1.0 } else { -1.0 };
                    sign * (0.45 / k as f32 + 0.01 * s as f32 / (k * k) as f32) * (1.0 + 0.05 * var)
                }
            })
        } else {
            Box::new(move |s, l, k| {
                if k == 0 {
                    let kk = 1.0 + 0.1 * l as f32 + 0.05 * s as f32;
                    if log_gain {
                        kk.ln()
                    } else {
                        kk
                    }
                } else {
                    // increasing frequencies in (0, pi), spacing ~ pi/order with small state/leaf offsets
                    let m = (order - 1) as f32;
                    std::f32::consts::PI * (k as f32) / (m + 1.0)
                        + 0.15 / (m + 1.0) * (((s + l + k) % 3) as f32 - 1.0)
                        + 0.01 * var / (m + 1.0)
                }
            })
        };
        let mut mcp_opts = vec![format!("ALPHA={}", self.alpha)];
        if self.stage != 0 {
            mcp_opts.push(format!("GAMMA={}", self.stage));
            mcp_opts.push(format!("LN_GAIN={}", self.log_gain as u8));
        }
        let gv_model = |prefix: &str, vlen: usize, mean: f32| ModelSpec {
            prefix: prefix.into(),
            questions: vec![],
            quoted: self.quoted,
            numbering: 0,
            trees: vec![(2, TreeSpec::Leaf(1), vec![{
                let mut p = vec![mean; vlen];
                p.extend(vec![mean * mean * 0.02; vlen]);
                p
            }])],
        };
        let mut streams = vec![
            StreamSpec {
                name: "MCP".into(),
                vlen: order,
                is_msd: false,
                use_gv: self.gv,
                options: mcp_opts,
                windows: windows.clone(),
                model: mk("mcp", order, nwin, false, &*mcp_base, if self.stage == 0 { 0.1 } else { 0.01 }),
                gv: if self.gv { Some(gv_model("gv_mcp", order, if self.stage == 0 { 0.004 } else { 0.00002 })) } else { None },
            },
            StreamSpec {
                name: "LF0".into(),
                vlen: 1,
                is_msd: true,
                use_gv: self.gv,
                options: vec![],
                windows: windows.clone(),
                model: mk("lf0", 1, nwin, true, &|s, l, _| 5.0 + 0.1 * s as f32 + 0.2 * l as f32 + 0.03 * var, 0.02),
                gv: if self.gv { Some(gv_model("gv_lf0", 1, 0.02)) } else { None },
            },
        ];
        if self.ns >= 3 {
            let taps = self.lpf_taps;
            streams.push(StreamSpec {
                name: "LPF".into(),
                vlen: taps,
                is_msd: false,
                use_gv: false,
                options: vec![],
                windows: vec![vec![1.0]],
                model: mk(
                    "lpf",
                    taps,
                    1,
                    false,
                    &move |s, l, k| {
                        let c = (taps - 1) / 2;
                        let d = (k as i64 - c as i64).unsigned_abs() as f32;
                        (0.5 / (1.0 + d * d)) * (1.0 + 0.05 * ((s + l) % 3) as f32)
                    },
                    0.01,
                ),
                gv: None,
            });
        }
        for extra in 3..self.ns {
            // a fourth (fifth, …) stream: legal in the container, ignored by the engine (which reads spectrum, F0 and low-pass)
            streams.push(StreamSpec {
                name: if extra == 3 { "AUX".into() } else { format!("AUX{}", extra) },
                vlen: 2,
                is_msd: false,
                use_gv: false,
                options: vec!["KIND=aux".into()],
                windows: vec![vec![1.0]],
                model: mk("aux", 2, 1, false, &|s, l, k| 0.25 * (1 + s + l + k) as f32, 0.5),
                gv: None,
            });
        }
        VoiceSpec {
            rate: self.rate,
            fperiod: self.fperiod,
            nstate: n,
            gv_off: vec!["*-sil+*".into(), "*-pau+*".into()],
            dur,
            streams,
        }
    }
    pub fn bytes(&self) -> Vec<u8> {
        write(&self.spec())
    }
}
