//! Condition alphabets (deviations from the default) and cached voices.

use crate::common::*;
use crate::oracle::reader::RVoice;
use crate::props::c20::Act;
use jbonsai::model::Voice;
use jbonsai::Engine;
use std::sync::{Arc, Mutex, OnceLock};

/// Every single deviation from the default condition (DESIGN §2.3), default values excluded.
pub fn deviations(nstream: usize) -> Vec<Act> {
    let mut d = vec![Act::Alpha(0.0), Act::Alpha(0.8), Act::Beta(0.4), Act::Beta(0.8)];
    for i in 0..nstream {
        d.push(Act::Gv(i, 0.0));
        d.push(Act::Gv(i, 2.0));
    }
    for i in 0..nstream {
        d.push(Act::Msd(i, 0.0));
        d.push(Act::Msd(i, 0.3));
        d.push(Act::Msd(i, 1.0));
    }
    d.extend([Act::HalfTone(-24.0), Act::HalfTone(24.0), Act::HalfTone(0.5)]);
    d.extend([Act::Volume(-20.0), Act::Volume(20.0)]);
    d.extend([Act::Speed(0.25), Act::Speed(1.37), Act::Speed(4.0)]);
    d.push(Act::Align(true));
    d.extend([Act::Fperiod(1), Act::Fperiod(480)]);
    d.extend([Act::Rate(8000), Act::Rate(96000)]);
    d
}
pub fn same_setter(a: &Act, b: &Act) -> bool {
    use Act::*;
    match (a, b) {
        (Rate(_), Rate(_)) | (Fperiod(_), Fperiod(_)) | (Volume(_), Volume(_)) | (Speed(_), Speed(_)) | (Align(_), Align(_)) | (Alpha(_), Alpha(_)) | (Beta(_), Beta(_)) | (HalfTone(_), HalfTone(_)) => true,
        (Msd(i, _), Msd(j, _)) | (Gv(i, _), Gv(j, _)) => i == j,
        _ => false,
    }
}
/// All conditions with at most `d` deviations, as lists of setter calls (default = empty list first).
pub fn conditions_upto(nstream: usize, d: usize) -> Vec<Vec<Act>> {
    let devs = deviations(nstream);
    let mut out: Vec<Vec<Act>> = vec![vec![]];
    if d >= 1 {
        for a in &devs {
            out.push(vec![a.clone()]);
        }
    }
    if d >= 2 {
        for i in 0..devs.len() {
            for j in i + 1..devs.len() {
                if !same_setter(&devs[i], &devs[j]) {
                    out.push(vec![devs[i].clone(), devs[j].clone()]);
                }
            }
        }
    }
    if d >= 3 {
        for i in 0..devs.len() {
            for j in i + 1..devs.len() {
                for k in j + 1..devs.len() {
                    if !same_setter(&devs[i], &devs[j]) && !same_setter(&devs[i], &devs[k]) && !same_setter(&devs[j], &devs[k]) {
                        out.push(vec![devs[i].clone(), devs[j].clone(), devs[k].clone()]);
                    }
                }
            }
        }
    }
    out
}
pub fn with_cond(base: &Engine, acts: &[Act]) -> Engine {
    let mut e = base.clone();
    for a in acts {
        a.apply(&mut e.condition);
    }
    e
}
/// The same settings as `e`, but arrived at the other way a caller can fill an existing object: a scratch engine on the
/// same voices, with every setting at some other value, overwritten through `Clone::clone_from` - of the `Condition`
/// (`whole` false) or of the whole `Engine` (`whole` true, the scratch then also comes from another voice).
pub fn via_clone_from(e: &Engine, whole: bool) -> Engine {
    let ns = e.voices.global_metadata().num_streams;
    let mut scratch = if whole {
        // another voice altogether (LSP, log gain, other rate): nothing of it may survive
        crate::common::engine_from_bytes(&crate::gen::voice::GenCfg { ns: 2, stage: 2, log_gain: true, order: 5, rate: 8000, fperiod: 40, ..crate::gen::voice::GenCfg::default() }.bytes()).expect("generated voice")
    } else {
        e.clone()
    };
    let c = &mut scratch.condition;
    c.set_sampling_frequency(11025);
    c.set_fperiod(33);
    c.set_volume(13.5);
    c.set_speed(2.25);
    c.set_phoneme_alignment_flag(!e.condition.get_phoneme_alignment_flag());
    c.set_alpha(0.11);
    c.set_beta(0.77);
    c.set_additional_half_tone(-7.5);
    for i in 0..if whole { 2 } else { ns } {
        c.set_msd_threshold(i, 0.91);
        c.set_gv_weight(i, 0.07);
    }
    if whole {
        scratch.clone_from(e);
    } else {
        scratch.condition.clone_from(&e.condition);
    }
    scratch
}
pub fn acts_json(acts: &[Act]) -> serde_json::Value {
    serde_json::Value::Array(acts.iter().map(|a| serde_json::json!(format!("{:?}", a))).collect())
}

pub fn v0_bytes() -> &'static Vec<u8> {
    static B: OnceLock<Vec<u8>> = OnceLock::new();
    B.get_or_init(|| std::fs::read(BUNDLED).expect("bundled voice file"))
}

/// A voice file taken apart: the header up to and including "[POSITION]\n", the [POSITION] keys, and every data block
/// as (key index, position within the key's range list, bytes).
pub struct Parts {
    pub head: String,
    pub keys: Vec<String>,
    pub blocks: Vec<(usize, usize, Vec<u8>)>,
}
pub fn split_blocks(orig: &[u8]) -> Parts {
    let dp = orig.windows(7).position(|w| w == b"[DATA]\n").expect("[DATA]") + 7;
    let header = std::str::from_utf8(&orig[..dp]).expect("utf8 header");
    let data = &orig[dp..];
    let ppos = header.find("[POSITION]\n").expect("[POSITION]") + "[POSITION]\n".len();
    let head = header[..ppos].to_string();
    let plines: Vec<&str> = header[ppos..].lines().take_while(|l| !l.starts_with('[')).collect();
    let mut blocks = Vec::new();
    let mut keys = Vec::new();
    for (li, l) in plines.iter().enumerate() {
        let (k, v) = l.split_once(':').expect("key:ranges");
        keys.push(k.to_string());
        for (ri, r) in v.split(',').enumerate() {
            let (a, b) = r.split_once('-').expect("a-b");
            let (a, b): (usize, usize) = (a.parse().unwrap(), b.parse().unwrap());
            blocks.push((li, ri, data[a..=b].to_vec()));
        }
    }
    Parts { head, keys, blocks }
}
/// Put the parts together again, blocks stored in the given order (indices into `parts.blocks`), optionally with three
/// 0xFF filler bytes around every block; [POSITION] is written to match.
pub fn assemble(parts: &Parts, order: &[usize], filler: bool) -> Vec<u8> {
    let mut out_data: Vec<u8> = Vec::new();
    let mut ranges: Vec<Vec<String>> = parts.keys.iter().enumerate().map(|(li, _)| vec![String::new(); parts.blocks.iter().filter(|b| b.0 == li).count()]).collect();
    for &bi in order {
        if filler {
            out_data.extend([0xFFu8; 3]);
        }
        let (li, ri, bytes) = &parts.blocks[bi];
        let a = out_data.len();
        out_data.extend(bytes);
        ranges[*li][*ri] = format!("{}-{}", a, (out_data.len() as i64 - 1).max(a as i64));
    }
    if filler {
        out_data.extend([0xFFu8; 3]);
    }
    let mut h = parts.head.clone();
    for (li, k) in parts.keys.iter().enumerate() {
        h += &format!("{}:{}\n", k, ranges[li].join(","));
    }
    h += "[DATA]\n";
    let mut out = h.into_bytes();
    out.extend(out_data);
    out
}
/// The same voice file with its [DATA] blocks stored in another order (mode bit 1: reversed) and/or separated by three
/// filler bytes 0xFF (mode bit 2); [POSITION] is rewritten accordingly, the rest of the header is kept verbatim.
pub fn repack(orig: &[u8], mode: u8) -> Vec<u8> {
    let parts = split_blocks(orig);
    let mut order: Vec<usize> = (0..parts.blocks.len()).collect();
    if mode & 1 != 0 {
        order.reverse();
    }
    assemble(&parts, &order, mode & 2 != 0)
}

/// P_k(V0): PDF floats perturbed at byte level (means x(1±0.02k), variances x(1+0.1k), MSD weights
/// moved toward 0.5 by 0.2k of their distance, GV means x(1+0.05k)); trees/metadata untouched.
pub fn perturb(orig: &[u8], k: usize) -> Vec<u8> {
    if k == 0 {
        return orig.to_vec();
    }
    let rv = RVoice::read(orig);
    let dp = orig.len() - rv.data.len();
    let mut out = orig.to_vec();
    let nstate = rv.num("NUM_STATES");
    let kf = k as f32;
    let mut edit = |range: (usize, usize), ntree: usize, half: usize, msd: bool, gv: bool| {
        let (a, b) = range;
        let mut o = dp + a + 4 * ntree;
        let plen = 2 * half + msd as usize;
        let mut idx = 0usize;
        while o + 4 <= dp + b + 1 {
            let v = f32::from_le_bytes(out[o..o + 4].try_into().unwrap());
            let pos = idx % plen;
            let nv = if msd && pos == 2 * half {
                (v + 0.2 * kf * (0.5 - v)).clamp(0.0, 1.0)
            } else if pos < half {
                if gv {
                    v * (1.0 + 0.05 * kf)
                } else {
                    v * (1.0 + 0.02 * kf * if idx % 2 == 0 { 1.0 } else { -1.0 })
                }
            } else {
                v * (1.0 + 0.1 * kf)
            };
            out[o..o + 4].copy_from_slice(&nv.to_le_bytes());
            o += 4;
            idx += 1;
        }
    };
    edit(rv.range("DURATION_PDF")[0], 1, nstate, false, false);
    for s in rv.streams() {
        let vl = rv.snum("VECTOR_LENGTH", &s);
        let nw = rv.snum("NUM_WINDOWS", &s);
        let msd = rv.snum("IS_MSD", &s) == 1;
        edit(rv.range(&format!("STREAM_PDF[{}]", s))[0], nstate, vl * nw, msd, false);
        if rv.snum("USE_GV", &s) == 1 {
            edit(rv.range(&format!("GV_PDF[{}]", s))[0], 1, vl, false, true);
        }
    }
    out
}

/// Cached V0 and perturbed copies P_1..P_3 (as loaded by the real loader).
pub fn pk(k: usize) -> Arc<Voice> {
    static CACHE: OnceLock<Mutex<Vec<Option<Arc<Voice>>>>> = OnceLock::new();
    let c = CACHE.get_or_init(|| Mutex::new(vec![None; 8]));
    let mut g = c.lock().unwrap();
    if g[k].is_none() {
        let v = load_voice_bytes(&perturb(v0_bytes(), k)).expect("perturbed bundled voice loads");
        g[k] = Some(Arc::new(v));
    }
    g[k].clone().unwrap()
}
pub fn engine_pk(ks: &[usize]) -> Engine {
    engine_from_voices(ks.iter().map(|k| pk(*k)).collect()).expect("engine from compatible voices")
}

pub type Traj = (Vec<Vec<f64>>, Vec<Vec<f64>>, Vec<Vec<f64>>);
/// The trajectories the generator will render (hook 1), or the error/panic text.
pub fn trajectories<S: AsRef<str>>(e: &Engine, labels: &[S]) -> Result<Traj, String> {
    match catch(|| e.generator(labels).map(|g| {
        let (a, b, c) = g.verif_parameters();
        (a.to_vec(), b.to_vec(), c.to_vec())
    })) {
        Ok(Ok(t)) => Ok(t),
        Ok(Err(er)) => Err(format!("error: {}", er)),
        Err(p) => Err(format!("panic: {}", p)),
    }
}
pub fn synth<S: AsRef<str>>(e: &Engine, labels: &[S]) -> Result<Vec<f64>, String> {
    match catch(|| e.synthesize(labels)) {
        Ok(Ok(t)) => Ok(t),
        Ok(Err(er)) => Err(format!("error: {}", er)),
        Err(p) => Err(format!("panic: {}", p)),
    }
}
/// All getters as a comparable list.
pub fn getters(c: &jbonsai::Condition, nstream: usize) -> Vec<(String, f64)> {
    let mut v = vec![
        ("sampling_frequency".to_string(), c.get_sampling_frequency() as f64),
        ("fperiod".into(), c.get_fperiod() as f64),
        ("volume".into(), c.get_volume()),
        ("speed".into(), c.get_speed()),
        ("alignment".into(), c.get_phoneme_alignment_flag() as u8 as f64),
        ("alpha".into(), c.get_alpha()),
        ("beta".into(), c.get_beta()),
        ("half_tone".into(), c.get_additional_half_tone()),
    ];
    for i in 0..nstream {
        v.push((format!("msd_threshold[{}]", i), c.get_msd_threshold(i)));
        v.push((format!("gv_weight[{}]", i), c.get_gv_weight(i)));
    }
    v
}
