#!/bin/sh
# usage: tools/batch.sh <file with lines: "<worktree-suffix> <seeded-id> <property> <check ids...>">
# confirms each change in its worktree (suite, demo with/without), then runs the listed checks against it
while read -r wt id prop checks; do
  [ -z "$wt" ] && continue
  echo "=== $id"
  /verif/tools/confirm_seeded.sh /tmp/wt-$wt $id $prop
  NOSUITE=1 /verif/tools/mutant.sh /verif/seeded/$id/patch.diff $checks
done < "$1"
