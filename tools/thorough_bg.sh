#!/bin/sh
# background thorough sweep on a copy of the binary; evidence and replays go to /verif/work/thorough (JBV_OUT)
cp /verif/target/release/jbv /verif/work/jbv-bg
rm -rf /verif/work/thorough; mkdir -p /verif/work/thorough
export JBV_OUT=/verif/work/thorough
cd /verif/harness
for id in ${@:-C02 C04 C05 C06 C07 C08 C09 C10 C11 C12 C13 C14 C15 C16 C17 C19 C20 C18 C01 C03}; do
  s=$(date +%s); /verif/work/jbv-bg check $id thorough > /verif/work/thorough/$id.log 2>&1; rc=$?
  echo "$id rc=$rc $(( $(date +%s) - s ))s $(grep -c VIOLATION /verif/work/thorough/$id.log)" >> /verif/work/thorough/summary.txt
done
