#!/bin/sh
# Re-runs every seeded change against the checks recorded for it; lists the ones no check reports.
# Runs in isolation so that /repo and /verif/harness stay usable meanwhile: a scratch worktree of /repo, a snapshot
# of the harness sources pointed at that worktree, and its own target directory, all under $RG (removed at the end).
# usage: tools/regress.sh [id-prefix…]      output: /verif/work/regress.log (ends with DONE)
#        BENIGN="B15 B16" tools/regress.sh  every quick check against each listed behaviour-preserving patch of /verif/benign;
#                                          output: /verif/work/regress-benign.log
#        BATCH=<file> tools/regress.sh     lines "<worktree-suffix> <seeded-id> <property> <check ids…>": each change is first
#                                          confirmed in its scratch worktree /tmp/wt-<suffix> (tools/confirm_seeded.sh), then the
#                                          listed checks run against it; output: /verif/work/regress-batch.log
RG=${RG:-/tmp/jbv-regress}
LOG=/verif/work/regress.log; [ -n "$BATCH" ] && { RG=${RG}-batch; LOG=/verif/work/regress-batch.log; }
[ -n "$BENIGN" ] && { RG=${RG}-benign; LOG=/verif/work/regress-benign.log; }
cd /verif || exit 2
rm -rf "$RG"; git -C /repo worktree prune; mkdir -p "$RG"
git -C /repo worktree add --detach "$RG/repo" HEAD >/dev/null 2>&1 || exit 2
rsync -a --exclude target "${HARNESS_SRC:-/verif/harness}/" "$RG/harness/"
sed -i "s#path = \"/repo\"#path = \"$RG/repo\"#" "$RG/harness/Cargo.toml"
export CARGO_TARGET_DIR="$RG/target" CARGO_NET_OFFLINE=true
build() { (cd "$RG/harness" && cargo build --release --offline >"$RG/build.log" 2>&1); }
build || { echo "clean build fails"; exit 2; }
: > $LOG
one() {
  id=$1; checks=$2; d=seeded/$id/
  if ! git -C "$RG/repo" apply /verif/$d/patch.diff 2>/dev/null; then
    echo "$id PATCH-DOES-NOT-APPLY" >> $LOG; git -C "$RG/repo" checkout -- .; return
  fi
  if ! build; then echo "$id HARNESS-BUILD-FAILS" >> $LOG; git -C "$RG/repo" checkout -- .; return; fi
  res=""
  for c in $checks; do
    JBV_OUT="$RG/out" "$RG/target/release/jbv" check $c quick >"$RG/one.log" 2>&1; rc=$?
    res="$res $c=$rc"
    [ $rc = 1 ] && res="$res($(grep -m1 -A1 '^VIOLATION' "$RG/one.log" | tail -1 | cut -c1-160))"
  done
  git -C "$RG/repo" checkout -- .
  echo "$id$res" >> $LOG
}
if [ -n "$BENIGN" ]; then
  # behaviour-preserving controls: every quick check must exit 0 (known findings allowed) with the patch applied
  for b in $BENIGN; do
    git -C "$RG/repo" apply /verif/benign/$b.patch 2>/dev/null || { echo "$b PATCH-DOES-NOT-APPLY" >> $LOG; git -C "$RG/repo" checkout -- .; git -C "$RG/repo" clean -fdq; continue; }
    if ! build; then echo "$b HARNESS-BUILD-FAILS" >> $LOG; git -C "$RG/repo" checkout -- .; git -C "$RG/repo" clean -fdq; continue; fi
    res=""
    for c in $(jq -r '.checks[].property_id' /verif/MANIFEST.json); do
      JBV_OUT="$RG/out" "$RG/target/release/jbv" check $c quick >"$RG/one.log" 2>&1; rc=$?
      res="$res $c=$rc"
      [ $rc != 0 ] && res="$res($(grep -m1 -A1 '^VIOLATION\|MACHINERY' "$RG/one.log" | tail -1 | cut -c1-200))"
    done
    git -C "$RG/repo" checkout -- .; git -C "$RG/repo" clean -fdq
    echo "$b$res" >> $LOG
  done
elif [ -n "$BATCH" ]; then
  while read -r wt id prop checks; do
    [ -z "$wt" ] && continue
    echo "CONFIRM $(env -u CARGO_TARGET_DIR /verif/tools/confirm_seeded.sh /tmp/wt-$wt $id $prop 2>&1 | tail -1)" >> $LOG
    one "$id" "$checks"
  done < "$BATCH"
else
  for d in seeded/*/; do
    id=$(basename $d)
    if [ $# -gt 0 ]; then ok=0; for p in "$@"; do case "$id" in $p*) ok=1;; esac; done; [ $ok = 1 ] || continue; fi
    checks=$(python3 -c "
import json,re,sys
m=json.load(open('$d/meta.json'))
c=re.findall(r'C\\d\\d', m.get('checks_run','')) or [m['property']]
print(' '.join(dict.fromkeys(c)))")
    one "$id" "$checks"
  done
fi
git -C /repo worktree remove --force "$RG/repo"; git -C /repo worktree prune; rm -rf "$RG"
echo DONE >> $LOG
