#!/usr/bin/env python3
"""Regenerates the table of DESIGN.md §10 from /verif/seeded/*/meta.json (between the two marker lines)."""
import json, glob, os, re
p='/verif/DESIGN.md'; s=open(p).read()
rows=[]
for d in sorted(glob.glob('/verif/seeded/*/meta.json')):
    m=json.load(open(d)); sid=os.path.basename(os.path.dirname(d))
    rows.append('| %s | %s | %s | %s | %s |' % (sid.split('-')[0], m['property'], m['change'].replace('|','/'), m['needs_to_manifest'].replace('|','/'), m['result'].replace('|','/')))
table='| id | property | change | needs, to manifest | outcome |\n|---|---|---|---|---|\n'+'\n'.join(rows)+'\n'
a=s.index('| id | property | change | needs, to manifest | outcome |')
b=s.index('\nWhat the misses taught')
s=s[:a]+table+s[b:]
open(p,'w').write(s)
missed=sum(1 for d in glob.glob('/verif/seeded/*/meta.json') if 'MISSED' in json.load(open(d))['result'] or 'exit 2' in json.load(open(d))['result'])
notdet=sum(1 for d in glob.glob('/verif/seeded/*/meta.json') if 'NOT DETECTED' in json.load(open(d))['result'])
print(len(rows),'seeded changes,',missed,'missed or mishandled on first run,',notdet,'not detected (by design or as a declared limit)')
