#!/bin/sh
# usage: tools/confirm_seeded.sh <worktree> <seeded id> <property id>
# Confirms in the scratch worktree: suite passes with the change, demo fails with it and passes without it;
# then stores patch.diff + demo + notes under /verif/seeded/<id>/ and prints a summary line.
wt="$1"; id="$2"; prop="$3"
cd "$wt" || exit 2
dst=/verif/seeded/$id; mkdir -p "$dst"
git diff -- src Cargo.toml > "$dst/patch.diff"
[ -s "$dst/patch.diff" ] || { echo "no source change in $wt"; exit 2; }
suite=$(cargo nextest run --workspace --lib --no-fail-fast --offline 2>&1 | grep -E "Summary" | sed 's/^ *//')
if [ -f tests/mutant_demo.rs ]; then demo="cargo test --offline --test mutant_demo"; cp tests/mutant_demo.rs "$dst/"; 
elif [ -f examples/mutant_demo.rs ]; then demo="cargo run --offline --release --example mutant_demo"; cp examples/mutant_demo.rs "$dst/";
else echo "no demo found"; exit 2; fi
$demo >/tmp/demo_with.log 2>&1; rc_with=$?
git apply -R "$dst/patch.diff" || { echo "cannot revert"; exit 2; }
$demo >/tmp/demo_without.log 2>&1; rc_without=$?
git apply "$dst/patch.diff"
cp MUTANT_NOTES.md "$dst/NOTES.md" 2>/dev/null
echo "$id prop=$prop suite_with_change=[$suite] demo_with_change_rc=$rc_with demo_without_change_rc=$rc_without lines=$(wc -l < $dst/patch.diff)"
