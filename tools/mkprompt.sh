#!/bin/sh
# mkprompt.sh <Cxx> <suffix> "<angle text>"  -> creates worktree /tmp/wt-<Cxx><suffix> and prompt /tmp/agent-prompt-<Cxx><suffix>.txt
set -e
P=$1; S=$2; ANGLE=$3
WT=/tmp/wt-$P$S
[ -d "$WT" ] || git -C /repo worktree add --detach "$WT" HEAD >/dev/null 2>&1
[ -f /tmp/prop-$P.txt ] || python3 - "$P" <<'PY'
import json,sys
for l in open('/verif/properties.jsonl'):
    p=json.loads(l)
    if p['id']==sys.argv[1]:
        q=p.get('quantification',{}); a=p.get('anchors',{})
        open('/tmp/prop-%s.txt'%p['id'],'w').write("Title: %s\n\nStatement: %s\n\nQuantified over (%s): %s\n\nWhy the existing tests cannot settle it: %s\n\nCode anchors: files %s; mechanisms: %s\n"%(p.get('title'),p.get('statement'),', '.join(q.get('over',[])) if isinstance(q,dict) else '',q.get('domain','') if isinstance(q,dict) else q,p.get('why_tests_insufficient',''),a.get('files'),'; '.join(a.get('mechanisms',[])) if isinstance(a,dict) else ''))
PY
python3 - "$P" "$S" "$WT" "$ANGLE" <<'PY'
import sys
p,s,wt,angle=sys.argv[1:5]
t=open('/verif/tools/agent-prompt.tmpl').read()
t=t.replace('__WT__',wt).replace('__PROP__',open('/tmp/prop-%s.txt'%p).read()).replace('__EXTRA__','\nAngle: '+angle+'\n' if angle else '')
open('/tmp/agent-prompt-%s%s.txt'%(p,s),'w').write(t)
PY
echo /tmp/agent-prompt-$P$S.txt
