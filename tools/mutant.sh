#!/bin/sh
# usage: tools/mutant.sh <patch file> <check id>...   (applies the patch to /repo, runs the suite and the checks, reverts)
# prints one line per check: <id> exit=<code> <first VIOLATION line>
patch="$1"; shift
cd /repo || exit 2
if [ -n "$(git status --porcelain -- src Cargo.toml)" ]; then echo "repo not clean"; exit 2; fi
git apply "$patch" || { echo "patch does not apply"; exit 2; }
trap 'git -C /repo checkout -- . ; git -C /repo clean -fdq -- src tests examples 2>/dev/null' EXIT
if [ "$NOSUITE" = "" ]; then
  s=$(cargo nextest run --workspace --no-fail-fast --offline 2>&1 | grep -E "Summary|error\[" | head -3)
  echo "suite: $s"
fi
for id in "$@"; do
  out=$(/verif/run "$id" ${TIER:-quick} 2>&1); rc=$?
  echo "$id exit=$rc $(echo "$out" | grep -m1 -A1 '^VIOLATION' | tr '\n' ' ' | cut -c1-300)"
  [ $rc -eq 2 ] && echo "$out" | grep -m3 MACHINERY
done
