#!/usr/bin/env python3
"""Regenerates /verif/MANIFEST.json from the table below (one entry per claimed property)."""
import json, subprocess, os
P = {
 "C01": ("SCOPE: exhaustive enumeration of voices x utterance alphabets x all conditions with <= d deviations, every case run on the real Engine",
         "bounded exhaustive input/configuration enumeration (small-scope model checking of the real code)", "4 C01",
         "bounds: 320 generated voices + V0/P1, labels from Lambda/RECOMB1/corpus windows/STRUCT1, <= 2 (quick) / 3 (thorough) simultaneous deviations; stable-range premise in its most conservative reading"),
 "C02": ("HIST: stateright BFS over all call histories {step(b), frames query, finish} up to the depth bound on real generators; invariant vs the one-shot waveform in every state",
         "explicit-state model checking (stateright) of operation histories on the real SpeechGenerator", "4 C02", "buffers <= 3 x fperiod, generators of 0..5 frames exhaustively plus V0 chunk families"),
 "C03": ("HIST (all call histories on one engine, baselines from fresh child processes) + SCHED (all interleavings of 2-3 concurrent calls with <= B preemptions at hook sites under a controlled scheduler) + compile-time Send/Sync assertion + re-apply enumeration ([set(f), set(get())] vs a fresh engine given the getter's value, every real-valued setter)",
         "stateless preemption-bounded schedule exploration of the real code + explicit-state history search", "4 C03", "preemptions only at verif-hooks sites; B <= 2; <= 3 controlled threads; histories to depth 4/5; races whose window contains no hook site are only reached by the supplementary free-running rounds (8 real threads, mixed utterances/settings, setter bursts), which are sampling and labelled so in the evidence"),
 "C04": ("SCOPE: every model x tree x label of the enumerated spaces compared bit-exactly with an independent reader + glob matcher; generated files over all tree shapes <= 3 internal nodes",
         "bounded exhaustive input enumeration against an independent reference reader", "4 C04", "labels from corpus + RECOMB1 + path-constructed labels; generated trees <= 3 internal nodes"),
 "C05": ("SCOPE: full product of per-state (mean, variance, duration, voicing) alphabets x window sets x vector lengths on the real MlpgAdjust vs dense Gaussian elimination",
         "small-scope exhaustive enumeration vs dense reference solver", "4 C05", "variances in [0.05,3]; <= 3/4 states full product, periodic families to 60 states"),
 "C06": ("SCOPE: explicit lattice of stationary cepstra x orders x alpha through the real Vocoder; DFT of the pulse response vs closed form",
         "bounded exhaustive lattice enumeration vs closed-form spectrum", "4 C06", "cepstra on the lattice, |log H/K| <= 2"),
 "C07": ("SCOPE: all frame-symbol triples x 16 (rate, frame period) cells x low-pass sets through the real Vocoder with identity spectrum; closed-form excitation identities",
         "bounded exhaustive sequence enumeration vs closed-form identities", "4 C07", "7-point F0 lattice, frame triples + 20 repeats"),
 "C08": ("SCOPE: full product of duration-model alphabets x speed lattice incl. rounding boundaries on the real DurationEstimator; end-to-end on V0",
         "small-scope exhaustive enumeration vs closed-form law", "4 C08", "<= 4 states full product, 5-6 reduced, 200-state periodic families"),
 "C09": ("SCOPE: full product of per-label time annotations over utterances of 1..3(4) labels x state counts on the real Labels + DurationEstimator; end-to-end string form",
         "small-scope exhaustive enumeration vs reference grouping law", "4 C09", "9-point time lattice, <= 3 labels (4 reduced)"),
 "C10": ("SCOPE: voice sets of 1..4 voices x simplex lattice weight vectors x deviating quantities x labels; weighted average recomputed from each voice's own tree lookup",
         "bounded exhaustive configuration enumeration vs reference average", "4 C10", "quarter-step simplex lattice + outside points, <= 2/3 deviating quantities"),
 "C11": ("SCOPE: threshold lattice x GV weights x voices x utterances; voiced mask law and cross-stream isolation on the generator's trajectories",
         "bounded exhaustive configuration enumeration", "4 C11", "7 thresholds; V0, perturbed and generated voices"),
 "C12": ("SCOPE: corpus windows of 10..60 labels x GV weights x voices; variance law on the generator's trajectories",
         "bounded exhaustive enumeration over corpus windows", "4 C12", "windows with stride (quick) / stride 1-4 (thorough); 5 weights"),
 "C13": ("SCOPE: all gap compositions (small orders) / single-gap variations (large orders) x stages x alpha x gain forms through the real Vocoder vs K/|A|^s",
         "bounded exhaustive lattice enumeration vs closed-form spectrum", "4 C13", "LSP sets on the gap lattice"),
 "C14": ("SCOPE: C06 lattice x beta x alpha through the real Vocoder; (1+beta) shape law and energy preservation on the stationary pulse response; frame histories (glides, single-coefficient steps, bit-level twins)",
         "bounded exhaustive lattice enumeration vs closed-form law", "4 C14", "cepstra on the lattice"),
 "C15": ("SCOPE: 9 shifts x voices x utterances x <= 1 further deviation; trajectories via hook 1",
         "bounded exhaustive configuration enumeration", "4 C15", "shift lattice {-24..24}"),
 "C16": ("SCOPE: 9 volumes x voices of both filter families x utterances x <= 1 further deviation",
         "bounded exhaustive configuration enumeration", "4 C16", "volume lattice {-60..60} dB"),
 "C17": ("SCOPE: 4 input forms x blank-line positions; every single-character fault at every position of 3 base lines from a 30-symbol alphabet; long bad lines of multi-byte characters at every byte phase in every token position",
         "exhaustive single-fault enumeration of label text", "4 C17", "single faults (pairs on a window in thorough)"),
 "C18": ("fault enumeration: every single fault of each class on generated files (every byte offset truncation, every header number, every token) and class representatives on V0, pairs on a reduced set, each in an isolated child process",
         "exhaustive single/double fault enumeration with process isolation", "4 C18", "<= 2 simultaneous faults"),
 "C19": ("SCOPE: all one-field metadata differences x list positions; HIST (stateright) over weight-update histories to depth 2/3 followed by synthesis",
         "explicit-state model checking (stateright) of weight-update histories + exhaustive metadata-difference enumeration", "4 C19", "weight alphabet of 5 valid + 6 invalid vectors"),
 "C20": ("HIST: stateright BFS over all setter histories to depth 2/3 on the real Condition; getters vs clamped reference in every state",
         "explicit-state model checking (stateright) of setter histories", "4 C20", "12-value f64 and 5-value usize alphabets"),
}
FAULT = {"C18"}
have = set()
src = open('/verif/harness/src/props/mod.rs').read()
for pid in P:
    if '"%s" =>' % pid in src: have.add(pid)
checks = []
for pid in sorted(have):
    text, tech, ref, note = P[pid]
    checks.append({
        "property_id": pid,
        "quick_cmd": "./run %s quick" % pid,
        "thorough_cmd": "./run %s thorough" % pid,
        "evidence_file": "/verif/evidence/%s.json" % pid,
        "replay_cmd_template": "./run replay {path}",
        "engine": "jbv",
        "level_claimed": {"category": "fault_enumeration" if pid in FAULT else "model_checking", "text": text, "design_ref": "DESIGN.md §" + ref},
        "level_note": note + "; besides the bounded exhaustive part each check runs single large instances beyond its scope (listed in the evidence rule; probes, not enumerations); the quick tier checks one build (stable, default features + hooks, debug assertions and overflow checks on), the thorough tier repeats the quick enumeration under three more builds (plain, native, simd); trusted base: the harness oracles (validated against the unchanged tree and by 235 seeded changes), rustc, stateright",
        "technique": tech,
    })
hooks = subprocess.run(["git","-C","/repo","log","--format=%H %s"],capture_output=True,text=True).stdout.splitlines()
hook_commits = [l.split()[0] for l in hooks if 'verif-hooks' in l]
m = {
 "version": 1,
 "setup_cmd": "cd /verif && ./run build",
 "hooks": {"guard": "cargo feature verif-hooks (default off)", "enable": "the harness crate depends on jbonsai by path=/repo with features=[\"verif-hooks\"]",
           "baseline_off_cmd": "cd /repo && cargo nextest run --workspace --no-fail-fast --offline || cargo test --workspace --no-fail-fast --offline",
           "source_commits": hook_commits, "add_only": True},
 "engines": [{"name": "jbv", "path": "/verif/harness", "serves_properties": sorted(have), "kind_free_text": "Rust harness: HIST (stateright over real objects), SCHED (hand-rolled preemption-bounded scheduler through verif-hooks sites), SCOPE (exhaustive small-scope enumeration vs reference models)"}],
 "checks": checks,
 "not_applicable": [{"property_id": pid, "reason": "check not built yet in this revision (planned, see DESIGN.md §4)"} for pid in sorted(set(P) - have)],
 "notes": "exit 0 = held (KNOWN-FINDING lines for listed findings), 1 = VIOLATION, 2 = machinery failure. Known findings: /verif/known-findings.txt",
}
json.dump(m, open('/verif/MANIFEST.json','w'), indent=1)
print("claimed:", sorted(have))
