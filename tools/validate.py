#!/usr/bin/env python3
import json, glob, sys
import jsonschema
ok = True
jsonschema.validate(json.load(open('/verif/MANIFEST.json')), json.load(open('/root/.vp/MANIFEST.schema.json')))
sch = json.load(open('/root/.vp/EVIDENCE.schema.json'))
for f in sorted(glob.glob('/verif/evidence/*.json')):
    try:
        jsonschema.validate(json.load(open(f)), sch)
    except Exception as e:
        ok = False; print('INVALID', f, str(e)[:300])
print('valid' if ok else 'INVALID')
sys.exit(0 if ok else 1)
